#!/usr/bin/env python3
"""Debug aid: given an SMT2 file produced by `govc dump -obl`, find the smallest named sub-formula
(define-fun n!k) of the hypothesis that is unsatisfiable on its own and print its unsat core."""
import re, subprocess, sys
src = open(sys.argv[1]).read()
lines = src.split('\n')
decls = [l for l in lines if not (l.startswith('(assert') or l.startswith('(check-sat') or l.startswith('(get-model') or l.startswith('(set-option :produce-models'))]
defs = {}
for l in lines:
    m = re.match(r'\(define-fun (n!\d+) \(\) Bool (.*)\)$', l)
    if m: defs[m.group(1)] = m.group(2)
def split(body):
    parts=[];d=0;cur=''
    for ch in body:
        if ch=='(':d+=1
        if ch==')':d-=1
        if ch==' ' and d==0:
            if cur: parts.append(cur); cur=''
        else: cur+=ch
    if cur: parts.append(cur)
    return parts
def sat(formulas, core=False):
    out = (['(set-option :produce-unsat-cores true)'] if core else []) + decls
    for i,f in enumerate(formulas):
        out.append(f'(assert (! {f} :named a{i}))' if core else f'(assert {f})')
    out.append('(check-sat)')
    if core: out.append('(get-unsat-core)')
    open('/tmp/_w.smt2','w').write('\n'.join(out))
    r = subprocess.run(['z3-new','-T:20','/tmp/_w.smt2'],capture_output=True,text=True)
    return r.stdout
def descend(name, depth=0):
    body = defs.get(name)
    if body is None:
        if name.startswith('(and ') or name.startswith('(or '):
            body = name
        else:
            return
    if body.startswith('(and '): kids = split(body[5:-1]); kind='and'
    elif body.startswith('(or '): kids = split(body[4:-1]); kind='or'
    else: print('  '*depth, name, '=', body[:300]); return
    print('  '*depth, name[:60], kind, len(kids))
    if kind == 'or':
        for k in kids:
            if sat([k]).startswith('unsat'):
                descend(k, depth+1)
        return
    for k in kids:
        if (k in defs or k.startswith('(and ') or k.startswith('(or ')) and sat([k]).startswith('unsat'):
            descend(k, depth+1); return
    res = sat(kids, core=True)
    ls = res.split('\n')
    if len(ls) > 1:
        for c in re.findall(r'a(\d+)', ls[1]):
            k = kids[int(c)]
            print('  '*(depth+1), 'core:', k[:160], '::', defs.get(k,'')[:400])
start = sys.argv[2]
print(sat([start])[:20])
descend(start)
