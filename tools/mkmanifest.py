#!/usr/bin/env python3
"""Regenerates /verif/MANIFEST.json from the claims table below (kept in one place so that the
manifest stays valid and in step with what the engine actually checks)."""
import json, subprocess, os
V = '/verif'
props = [json.loads(l) for l in open(f'{V}/properties.jsonl')]
claims = json.load(open(f'{V}/tools/claims.json'))
commits = subprocess.run(['git', '-C', '/repo', 'log', '--format=%H', '--grep', '^verif:'], capture_output=True, text=True).stdout.split()
man = {
 "version": 1,
 "setup_cmd": "cd /verif/engine && GOTOOLCHAIN=local GOFLAGS=-mod=vendor GOPROXY=off /opt/veriftools/go1.26.8/bin/go build -o /verif/bin/govc ./cmd/govc",
 "hooks": {"guard": "verif",
   "enable": "contracts are comment-only files zz_contracts_verif.go (//go:build verif) beside the sources; govc loads /repo with -tags verif; nothing is compiled into the binaries",
   "baseline_off_cmd": "cd /repo && GOFLAGS=-mod=mod GOPROXY=off go test -json -vet=off -count=1 -timeout 25m ./...",
   "source_commits": list(reversed(commits)), "add_only": True},
 "engines": [{"name": "govc", "path": "/verif/engine", "serves_properties": sorted(claims['claimed'].keys()),
   "kind_free_text": "contract-based deductive verifier for Go written for this task: go/ssa (NaiveForm) symbolic execution of the real functions, weakest-precondition style obligations from //@ contracts, discharged by a race of z3 5.1.0 / cvc5 1.0 / z3 4.8.12"}],
 "checks": [], "not_applicable": [],
 "notes": "See DESIGN.md. Known findings / fixes: known_findings.jsonl. Replays: replays/."
}
for p in props:
    pid = p['id']
    if pid in claims['claimed']:
        c = claims['claimed'][pid]
        man['checks'].append({
          "property_id": pid,
          "quick_cmd": f"/verif/bin/govc check --property {pid} --tier quick",
          "thorough_cmd": f"/verif/bin/govc check --property {pid} --tier thorough",
          "evidence_file": f"/verif/evidence/{pid}.json",
          "replay_cmd_template": "/verif/bin/govc replay {path}",
          "engine": "govc",
          "level_claimed": {"category": c['level'], "text": c['text'], "design_ref": "DESIGN.md §4 " + pid},
          "level_note": c['note'],
          "technique": c.get('technique', "contract-based deductive verification: function/region contracts, monitor invariants and lemmas; VCs generated from go/ssa of the real code; z3/cvc5")})
    else:
        man['not_applicable'].append({"property_id": pid, "reason": claims['not_applicable'].get(pid, "not yet built (see DESIGN.md §7)")})
json.dump(man, open(f'{V}/MANIFEST.json', 'w'), indent=1)
print("claimed:", sorted(claims['claimed'].keys()))
