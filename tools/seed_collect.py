#!/usr/bin/env python3
"""Copy confirmed seeded changes into /verif/seeded/<P>/<k>/ and write /verif/seeded/MATRIX.md."""
import json, os, shutil, sys, glob
src = sys.argv[1] if len(sys.argv) > 1 else "/tmp/seed_out"
prefix = sys.argv[2] if len(sys.argv) > 2 else ""   # e.g. "r2-" for a second round
matrix = "/verif/seeded/MATRIX%s.md" % (("-" + prefix.strip("-")) if prefix else "")
rows = []
for rf in sorted(glob.glob(os.path.join(src, "results", "*.json"))):
    try:
        r = json.load(open(rf))
    except Exception:
        continue
    P, k = r["property"], r["k"]
    d = os.path.join(src, P, k)
    out = os.path.join("/verif/seeded", P, prefix + k)
    os.makedirs(out, exist_ok=True)
    for f in ("patch.diff", "demonstration", "meta.json"):
        if os.path.exists(os.path.join(d, f)):
            shutil.copy(os.path.join(d, f), os.path.join(out, f))
    keep = {x: r.get(x) for x in ("property", "k", "title", "applies", "tests_pass", "demo_without_patch", "demo_with_patch", "confirmed", "check_exit", "caught", "check_lines")}
    json.dump(keep, open(os.path.join(out, "result.json"), "w"), indent=1)
    obl = ""
    for l in r.get("check_lines", []):
        if l.startswith("VIOLATION"):
            obl = l.split("obligation=")[-1].split(" ")[0]
            break
    rows.append((P, prefix + k, r.get("title", ""), r.get("confirmed"), r.get("caught"), obl))
with open(matrix, "w") as f:
    f.write("# Seeded changes vs. registered quick checks\n\n")
    f.write("Each row: a change produced by a fresh sub-agent from the property text alone (patch.diff, demonstration, meta.json in the directory), confirmed = applies + 156 tests pass + demonstration fails with the patch and passes without; caught = the property's quick check exits 1 with a VIOLATION line on /repo with the patch applied.\n\n")
    f.write("| property | k | change | confirmed | caught | first failing obligation |\n|---|---|---|---|---|---|\n")
    for P, k, t, c, g, o in rows:
        f.write(f"| {P} | {k} | {t[:110]} | {'yes' if c else 'NO'} | {'**yes**' if g else 'no'} | `{o}` |\n")
    n = len(rows); ng = sum(1 for r in rows if r[4]); nc = sum(1 for r in rows if r[3])
    f.write(f"\n{n} changes, {nc} confirmed, {ng} caught.\n")
print(open(matrix).read())
