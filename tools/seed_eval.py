#!/usr/bin/env python3
"""Evaluate one seeded change: confirm it (applies, builds, tests pass, demonstration fails with the
patch and passes without), then run the registered quick check of its property against /repo with
the patch applied. Never leaves /repo modified.  usage: seed_eval.py <srcdir> <P> <k> [--keep]"""
import json, os, re, subprocess, sys, tempfile, shutil

def sh(cmd, cwd=None, env=None, timeout=1800):
    e = dict(os.environ)
    e.pop("GOTOOLCHAIN", None)
    if env: e.update(env)
    r = subprocess.run(cmd, shell=True, cwd=cwd, env=e, capture_output=True, text=True, timeout=timeout)
    return r.returncode, r.stdout + r.stderr

def demo_test(src):
    txt = "\n".join(l for l in open(src).read().split("\n") if not l.startswith("#"))
    m = re.search(r'^package \w+', txt, re.M)
    if not m: return None
    return txt[m.start():]

def run_demo(meta, code):
    pkg = meta.get("demo_pkg", "").strip("./")
    run = meta.get("demo_run", "").replace("-run", "").strip().strip("'\"")
    tmp = tempfile.mkdtemp(prefix="seeddemo")
    tf = os.path.join(tmp, "zz_seed_demo_test.go")
    open(tf, "w").write(code)
    ov = os.path.join(tmp, "ov.json")
    json.dump({"Replace": {f"/repo/{pkg}/zz_seed_demo_test.go": tf}}, open(ov, "w"))
    rc, out = sh(f"go test -overlay {ov} -vet=off -count=1 -timeout 120s -run '{run}' ./{pkg}", cwd="/repo")
    shutil.rmtree(tmp)
    return rc, out

def main():
    src, P, k = sys.argv[1], sys.argv[2], sys.argv[3]
    d = os.path.join(src, P, k)
    meta = json.load(open(os.path.join(d, "meta.json")))
    res = {"property": P, "k": k, "title": meta.get("title")}
    rc, out = sh("git status --porcelain", cwd="/repo")
    if out.strip():
        print("refusing: /repo has uncommitted changes:\n" + out); sys.exit(2)
    code = demo_test(os.path.join(d, "demonstration"))
    try:
        if code:
            rc0, out0 = run_demo(meta, code)
            res["demo_without_patch"] = "pass" if rc0 == 0 else "FAIL"
        rc, out = sh(f"git apply {d}/patch.diff", cwd="/repo")
        res["applies"] = rc == 0
        if rc != 0:
            res["apply_error"] = out[-500:]
        else:
            rc, out = sh("go build ./... && go test -vet=off -count=1 ./...", cwd="/repo")
            res["tests_pass"] = rc == 0
            if rc != 0: res["test_output"] = out[-800:]
            if code:
                rc1, out1 = run_demo(meta, code)
                res["demo_with_patch"] = "pass" if rc1 == 0 else "FAIL"
                res["demo_output"] = out1[-600:]
            rc, out = sh(f"/verif/bin/govc check --property {P} --tier quick --no-evidence", cwd="/verif", env={"GOVC_NO_SELFTEST": "1", "GOVC_NO_RETRY": "1"})
            res["check_exit"] = rc
            res["check_lines"] = [l for l in out.split("\n") if l.startswith("VIOLATION") or l.startswith("govc:") or l.startswith("UNDECIDED") or "undecided" in l.lower()][:12]
    finally:
        sh("git checkout -- . && git clean -fdq -e zz_contracts_verif.go", cwd="/repo")
    res["confirmed"] = bool(res.get("applies") and res.get("tests_pass") and res.get("demo_with_patch") == "FAIL" and res.get("demo_without_patch") == "pass")
    res["caught"] = res.get("check_exit") == 1
    print(json.dumps(res, indent=1))

main()
