package transfer

// Replay for C06 (obligation RecvManifestMultiStream$handleFileBegin/site:trust-needs-intact-file):
// a complete earlier transfer leaves file + sidecar; the data file is then deleted while the sidecar
// stays. Fetching the same tree again with resume must end with an identical file (or fail loudly) —
// the stale sidecar must not make the sender skip chunks of a file that no longer has them.

import (
	"bytes"
	"context"
	"os"
	"path/filepath"
	"testing"
	"time"

	"github.com/sheerbytes/sheerbytes/pkg/manifest"
)

func vpTransferOnce(t *testing.T, srcDir, outDir string, m manifest.Manifest, chunkSize uint32) (error, error) {
	t1, t2 := NewMockPair()
	ctx, cancel := context.WithTimeout(context.Background(), 10*time.Second)
	defer cancel()
	sc, err := t1.Dial(ctx, "peer2")
	if err != nil {
		t.Fatal(err)
	}
	rc, err := t2.Accept(ctx)
	if err != nil {
		t.Fatal(err)
	}
	recvErr := make(chan error, 1)
	go func() {
		_, err := RecvManifestMultiStream(ctx, rc, outDir, Options{ParallelFiles: 1, Resume: true, ResumeVerify: "last", HashAlg: "crc32c"})
		recvErr <- err
	}()
	sendErr := SendManifestMultiStream(ctx, sc, srcDir, m, Options{ChunkSize: chunkSize, ParallelFiles: 1, Resume: true, ResumeVerify: "last", HashAlg: "crc32c"})
	return sendErr, <-recvErr
}

func TestVPReplayC06StaleSidecarAfterDelete(t *testing.T) {
	const chunkSize = 64
	srcDir, outDir := t.TempDir(), t.TempDir()
	data := bytes.Repeat([]byte("abcdefgh"), chunkSize) // 8 chunks
	if err := os.WriteFile(filepath.Join(srcDir, "file.bin"), data, 0644); err != nil {
		t.Fatal(err)
	}
	m, err := manifest.Scan(srcDir)
	if err != nil {
		t.Fatal(err)
	}
	if se, re := vpTransferOnce(t, srcDir, outDir, m, chunkSize); se != nil || re != nil {
		t.Fatalf("first transfer failed: %v / %v", se, re)
	}
	// locate the received file and delete it; the resume metadata directory stays
	var got string
	filepath.Walk(outDir, func(p string, info os.FileInfo, err error) error {
		if err == nil && !info.IsDir() && filepath.Base(p) == "file.bin" {
			got = p
		}
		return nil
	})
	if got == "" {
		t.Fatal("received file not found")
	}
	if err := os.Remove(got); err != nil {
		t.Fatal(err)
	}
	se, re := vpTransferOnce(t, srcDir, outDir, m, chunkSize)
	after, rerr := os.ReadFile(got)
	if se == nil && re == nil && (rerr != nil || !bytes.Equal(after, data)) {
		t.Fatalf("VIOLATION: both sides report success after the data file was deleted, but the file differs from the source (stale sidecar trusted): %d bytes, equal=%v", len(after), bytes.Equal(after, data))
	}
	t.Logf("second transfer: sender=%v receiver=%v identical=%v", se, re, bytes.Equal(after, data))
}
