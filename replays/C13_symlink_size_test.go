package manifest

// Replay for C13: an entry that is not a plain file (a symbolic link) is listed with the size of
// the link itself, while the sender, which opens the path, reads the target's content.

import (
	"os"
	"path/filepath"
	"testing"
)

func TestVPReplayC13SymlinkSize(t *testing.T) {
	dir := t.TempDir()
	root := filepath.Join(dir, "share")
	if err := os.MkdirAll(root, 0o755); err != nil {
		t.Fatal(err)
	}
	target := filepath.Join(dir, "big.bin")
	if err := os.WriteFile(target, make([]byte, 5000), 0o644); err != nil {
		t.Fatal(err)
	}
	if err := os.Symlink(target, filepath.Join(root, "link.bin")); err != nil {
		t.Skip("symlinks not supported")
	}
	if err := os.WriteFile(filepath.Join(root, "plain.txt"), []byte("hello"), 0o644); err != nil {
		t.Fatal(err)
	}
	for name, scan := range map[string]func() (Manifest, error){
		"Scan":      func() (Manifest, error) { return Scan(root) },
		"ScanPaths": func() (Manifest, error) { return ScanPaths([]string{root}) },
	} {
		m, err := scan()
		if err != nil {
			t.Fatalf("%s: %v", name, err)
		}
		var total int64
		for _, it := range m.Items {
			if it.IsDir {
				continue
			}
			rel := it.RelPath
			if name == "ScanPaths" {
				rel, _ = filepath.Rel("share", filepath.FromSlash(it.RelPath))
			}
			data, rerr := os.ReadFile(filepath.Join(root, rel))
			if rerr != nil {
				t.Fatalf("VIOLATION-CONFIRMED: %s lists %q which cannot be read as a file: %v", name, it.RelPath, rerr)
			}
			if int64(len(data)) != it.Size {
				t.Fatalf("VIOLATION-CONFIRMED: %s lists %q with size %d but %d bytes are read from it", name, it.RelPath, it.Size, len(data))
			}
			total += it.Size
		}
		if total != m.TotalBytes {
			t.Fatalf("VIOLATION-CONFIRMED: %s: TotalBytes %d != sum of sizes %d", name, m.TotalBytes, total)
		}
	}
}
