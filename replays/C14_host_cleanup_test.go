package main

// Replay for C14 (the join code dies with the host): the host's handler registers its cleanup
// (session deletion) only after the peer list and the PeerJoined envelope went out. If the write of
// the peer list fails — the host's socket died right after the upgrade — the handler returns without
// deleting the session: the host is gone, but its join code keeps admitting peers.

import (
	"fmt"
	"io"
	"log/slog"
	"net"
	"net/http"
	"net/http/httptest"
	"strings"
	"sync"
	"testing"
	"time"

	"github.com/sheerbytes/sheerbytes/internal/config"
	"github.com/sheerbytes/sheerbytes/internal/peers"
	"github.com/sheerbytes/sheerbytes/internal/session"
)

func TestVPReplayC14HostCleanupNotRegistered(t *testing.T) {
	store := session.NewStore(0)
	hub := peers.NewHub()
	expiry := newSessionExpiryManager()
	logger := slog.New(slog.NewTextHandler(io.Discard, nil))
	limits := newServerLimits(config.ServerConfig{MaxMessageBytes: 65536})
	var wg sync.WaitGroup
	srv := httptest.NewServer(http.HandlerFunc(func(w http.ResponseWriter, r *http.Request) {
		wg.Add(1)
		defer wg.Done()
		handleWebSocket(w, r, store, hub, expiry, logger, limits, nil)
	}))
	defer srv.Close()
	addr := strings.TrimPrefix(srv.URL, "http://")
	for attempt := 0; attempt < 300; attempt++ {
		sess := store.Create()
		c, err := net.Dial("tcp", addr)
		if err != nil {
			t.Fatal(err)
		}
		req := fmt.Sprintf("GET /ws?join_code=%s&peer_id=host&role=sender HTTP/1.1\r\nHost: %s\r\nUpgrade: websocket\r\nConnection: Upgrade\r\nSec-WebSocket-Key: dGhlIHNhbXBsZSBub25jZQ==\r\nSec-WebSocket-Version: 13\r\n\r\n", sess.JoinCode, addr)
		c.Write([]byte(req))
		// wait for the 101 response, then reset the connection so that the server's next write fails
		buf := make([]byte, 16)
		c.SetReadDeadline(time.Now().Add(2 * time.Second))
		c.Read(buf)
		c.(*net.TCPConn).SetLinger(0)
		c.Close()
		wg.Wait() // the host's handler has returned: the host is disconnected
		time.Sleep(5 * time.Millisecond)
		wg.Wait()
		if len(hub.List(sess.ID)) != 0 {
			continue
		}
		if _, ok := store.GetByJoinCode(sess.JoinCode); ok {
			t.Fatalf("VIOLATION-CONFIRMED: the host's handler has returned (attempt %d) but join code %s still admits peers", attempt+1, sess.JoinCode)
		}
	}
	t.Log("session deleted after every host disconnect")
}
