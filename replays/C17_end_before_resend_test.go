package transfer

// Replay for obligation transfer.(*sendFileState).markChunkDone/ensures#2 (r ==> !s.resendPending):
// history on the real sendFileState — three chunks taken, two finished, the verification verdict
// "mismatch" arrives (resendPending set, verifyPending cleared), the third chunk finishes.
// The end-of-file decision must not be taken while the re-send is still pending.

import "testing"

func TestVPReplayC17EndBeforeResend(t *testing.T) {
	s := &sendFileState{chunkSize: 4, totalChunks: 3}
	s.item.Size = 12
	s.verifyPending = true
	for i := 0; i < 3; i++ {
		if _, _, ok := s.nextChunkToSend(); !ok {
			t.Fatalf("take %d failed", i)
		}
	}
	if s.markChunkDone() || s.markChunkDone() {
		t.Fatalf("end decided with chunks in flight")
	}
	// verdict: mismatch on chunk 0
	s.mu.Lock()
	s.resendChunk = 0
	s.resendPending = true
	s.verifyPending = false
	s.mu.Unlock()
	end := s.markChunkDone()
	s.mu.Lock()
	pending := s.resendPending
	s.mu.Unlock()
	if end && pending {
		t.Fatalf("VIOLATION: FileEnd decided while the re-send of chunk 0 is still pending")
	}
	// the re-send must still be handed out, then the end decided exactly once
	idx, _, ok := s.nextChunkToSend()
	if !ok || idx != 0 {
		t.Fatalf("re-send not handed out: ok=%v idx=%d", ok, idx)
	}
	if !s.markChunkDone() {
		t.Fatalf("end not decided after the re-send finished")
	}
	if s.trySendEnd() || s.markChunkDone() {
		t.Fatalf("end decided twice")
	}
}
