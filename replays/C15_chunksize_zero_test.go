package transfer

// Replay for obligation RecvManifestMultiStream$handleFileBegin/valinv (published receive state has
// chunkSize > 0): a sender announces a file with ChunkSize 0 and then sends one chunk frame for it.
// The receiver must answer with an error; it must not panic (bufpool.New(0) panics).
// Run in a child process because the panic happens on a goroutine of the receiver and would take
// the whole test binary down.

import (
	"context"
	"encoding/binary"
	"hash/crc32"
	"os"
	"os/exec"
	"strings"
	"testing"
	"time"

	"github.com/sheerbytes/sheerbytes/pkg/manifest"
)

func TestVPReplayC15ChunkSizeZero(t *testing.T) {
	if os.Getenv("VP_CHILD") == "1" {
		vpChunkSizeZeroChild(t)
		return
	}
	cmd := exec.Command(os.Args[0], "-test.run", "^TestVPReplayC15ChunkSizeZero$", "-test.v")
	cmd.Env = append(os.Environ(), "VP_CHILD=1")
	out, err := cmd.CombinedOutput()
	if strings.Contains(string(out), "panic:") {
		t.Fatalf("VIOLATION: receiver process panicked on FileBegin{ChunkSize: 0} + chunk frame:\n%s", firstLines(string(out), 12))
	}
	if err != nil {
		t.Fatalf("child failed without panic: %v\n%s", err, firstLines(string(out), 20))
	}
}

func firstLines(s string, n int) string {
	l := strings.Split(s, "\n")
	if len(l) > n {
		l = l[:n]
	}
	return strings.Join(l, "\n")
}

func vpChunkSizeZeroChild(t *testing.T) {
	ctx, cancel := context.WithTimeout(context.Background(), 5*time.Second)
	defer cancel()
	t1, t2 := NewMockPair()
	sc, err := t1.Dial(ctx, "peer2")
	if err != nil {
		t.Fatal(err)
	}
	rc, err := t2.Accept(ctx)
	if err != nil {
		t.Fatal(err)
	}
	item := manifest.FileItem{RelPath: "a.bin", Size: 4, ID: "id-a"}
	m := manifest.Manifest{Root: "r", Items: []manifest.FileItem{item}, FileCount: 1, TotalBytes: 4}
	done := make(chan error, 1)
	go func() {
		_, err := RecvManifestMultiStream(ctx, rc, t.TempDir(), Options{})
		done <- err
	}()
	ctrl, err := sc.OpenStream(ctx)
	if err != nil {
		t.Fatal(err)
	}
	if err := writeControlHeader(ctrl, m); err != nil {
		t.Fatal(err)
	}
	data, err := sc.OpenStream(ctx)
	if err != nil {
		t.Fatal(err)
	}
	if err := writeDataStreams(ctrl, DataStreams{Count: 1}); err != nil {
		t.Fatal(err)
	}
	// hand-rolled FileBegin with ChunkSize 0 (writeFileBegin does not reject it either)
	if err := writeFileBegin(ctrl, FileBegin{RelPath: "a.bin", FileSize: 4, ChunkSize: 0, StreamID: fileKeyForItem(item)}); err != nil {
		t.Fatal(err)
	}
	payload := []byte{1, 2, 3, 4}
	hdr := make([]byte, dataChunkHeaderLen)
	binary.BigEndian.PutUint64(hdr[0:8], fileKeyForItem(item))
	binary.BigEndian.PutUint32(hdr[8:12], 0)
	binary.BigEndian.PutUint32(hdr[12:16], uint32(len(payload)))
	binary.BigEndian.PutUint32(hdr[16:20], crc32.Checksum(payload, crc32cTable))
	data.Write(hdr)
	data.Write(payload)
	select {
	case err := <-done:
		if err == nil {
			t.Fatalf("receiver reported success")
		}
		t.Logf("receiver returned error (expected): %v", err)
	case <-time.After(3 * time.Second):
		t.Logf("receiver still running after 3 s (no panic)")
	}
}
