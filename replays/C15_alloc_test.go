package transfer

// Replays for the C15 allocation obligations (transfer.read*/alloc#k): a peer that sends a few
// bytes carrying a huge length prefix and then ends the stream must not make the decoder reserve
// memory out of proportion to the bytes received (bound used by the contracts: 64 KiB + 2 x received).

import (
	"bytes"
	"context"
	"encoding/binary"
	"io"
	"runtime"
	"testing"
)

type vpByteStream struct{ r *bytes.Reader }

func (s *vpByteStream) Read(p []byte) (int, error)  { return s.r.Read(p) }
func (s *vpByteStream) Write(p []byte) (int, error) { return len(p), nil }
func (s *vpByteStream) Close() error                { return nil }

func vpAllocDuring(f func()) uint64 {
	var a, b runtime.MemStats
	runtime.GC()
	runtime.ReadMemStats(&a)
	f()
	runtime.ReadMemStats(&b)
	return b.TotalAlloc - a.TotalAlloc
}

func vpCheck(t *testing.T, name string, input []byte, decode func(s Stream) error) {
	var err error
	got := vpAllocDuring(func() { err = decode(&vpByteStream{bytes.NewReader(input)}) })
	limit := uint64(65536 + 2*len(input) + 65536) // contract bound + slack for the test's own allocations
	if err == nil {
		t.Fatalf("%s: truncated input accepted", name)
	}
	if got > limit {
		t.Fatalf("VIOLATION: %s: %d input bytes made the decoder allocate %d bytes (limit %d)", name, len(input), got, limit)
	}
	_ = io.EOF
}

func TestVPReplayC15CreditBatch(t *testing.T) {
	in := make([]byte, 5)
	in[0] = controlTypeCreditBatch
	binary.BigEndian.PutUint32(in[1:], 64<<20) // 64 Mi entries = 1 GiB
	vpCheck(t, "readCreditBatch", in, func(s Stream) error { _, _, err := readControlMessage(s); return err })
}

func TestVPReplayC15ControlHeader(t *testing.T) {
	in := append([]byte(controlMagic), 0x40, 0, 0, 0) // 1 GiB of JSON announced, none sent
	vpCheck(t, "readControlHeader", in, func(s Stream) error { _, err := readControlHeader(s); return err })
}

func TestVPReplayC15ResumeInfoBitmap(t *testing.T) {
	in := []byte{controlTypeFileResumeInfo, 0, 0}       // empty file id
	in = append(in, make([]byte, 8+4)...)               // stream id, total chunks
	in = append(in, 0x40, 0, 0, 0)                      // bitmap length 1 GiB
	vpCheck(t, "readFileResumeInfo", in, func(s Stream) error { _, _, err := readControlMessage(s); return err })
}

func TestVPReplayC15LegacyRecvManifest(t *testing.T) {
	in := append([]byte(manifestMagicBytes), 0x40, 0, 0, 0) // 1 GiB of JSON announced, none sent
	dir := t.TempDir()
	vpCheck(t, "RecvManifest", in, func(s Stream) error {
		_, err := RecvManifest(context.Background(), s, dir, nil)
		return err
	})
}
