package app

// Replays for C12 (at most max-receivers simultaneous transfers).
//  rejoin:     a receiver that is being served joins and accepts again; its status is reset, it is
//              queued a second time and a second transfer for it overwrites its slot, so the slot
//              map under-counts and a third transfer is admitted with max-receivers = 2.
//  stale tail: a receiver leaves (slot released, transfer cancelled) and comes back; the cancelled
//              transfer then finishes and its epilogue deletes the slot of the *new* transfer, so the
//              next receiver is admitted while the new transfer is still running (max-receivers = 1).

import (
	"context"
	"io"
	"log/slog"
	"sync"
	"testing"
	"time"

	"github.com/sheerbytes/sheerbytes/pkg/protocol"
)

type vpRunCounter struct {
	mu      sync.Mutex
	running int
	peak    int
}

func (c *vpRunCounter) enter() {
	c.mu.Lock()
	c.running++
	if c.running > c.peak {
		c.peak = c.running
	}
	c.mu.Unlock()
}
func (c *vpRunCounter) leave() { c.mu.Lock(); c.running--; c.mu.Unlock() }
func (c *vpRunCounter) get() (int, int) {
	c.mu.Lock()
	defer c.mu.Unlock()
	return c.running, c.peak
}

func vpNewSender(max int) *SnapshotSender {
	now := time.Now()
	return &SnapshotSender{
		maxRecv:     max,
		logger:      slog.New(slog.NewTextHandler(io.Discard, nil)),
		receiverTTL: 10 * time.Minute,
		receivers:   make(map[string]*ReceiverState),
		active:      make(map[string]*transferSlot),
		signalCh:    make(map[string]chan protocol.Envelope),
		now:         func() time.Time { return now },
		exitFn:      func(int) {},
		closeConn:   func() {},
	}
}

func vpWaitStarted(t *testing.T, ch chan string, n int) {
	for i := 0; i < n; i++ {
		select {
		case <-ch:
		case <-time.After(300 * time.Millisecond):
			return
		}
	}
}

// transfers that were not cancelled and run at the same time
func TestVPReplayC12RejoinWhileTransferring(t *testing.T) {
	s := vpNewSender(2)
	var live vpRunCounter
	started := make(chan string, 8)
	release := make(chan struct{})
	s.transferFn = func(ctx context.Context, peerID string) error {
		live.enter()
		defer live.leave()
		started <- peerID
		select {
		case <-release:
			return nil
		case <-ctx.Done():
			return ctx.Err()
		}
	}
	defer close(release)
	s.handlePeerJoined("a")
	s.handleManifestAccept("a", protocol.ManifestAccept{})
	s.maybeStartTransfers(context.Background())
	vpWaitStarted(t, started, 1)
	// the same receiver joins and accepts again while its transfer runs
	s.handlePeerJoined("a")
	s.handleManifestAccept("a", protocol.ManifestAccept{})
	s.maybeStartTransfers(context.Background())
	vpWaitStarted(t, started, 1)
	s.handlePeerJoined("b")
	s.handleManifestAccept("b", protocol.ManifestAccept{})
	s.maybeStartTransfers(context.Background())
	vpWaitStarted(t, started, 1)
	if _, peak := live.get(); peak > 2 {
		t.Fatalf("VIOLATION-CONFIRMED: max-receivers=2 but %d transfers ran simultaneously (none cancelled)", peak)
	}
}

func TestVPReplayC12StaleTransferFreesSlot(t *testing.T) {
	s := vpNewSender(1)
	var live vpRunCounter // transfers whose context is not cancelled
	started := make(chan string, 8)
	finishOld := make(chan struct{})
	release := make(chan struct{})
	first := true
	var fmu sync.Mutex
	s.transferFn = func(ctx context.Context, peerID string) error {
		fmu.Lock()
		isFirst := first
		first = false
		fmu.Unlock()
		started <- peerID
		if isFirst {
			// winds down slowly after its cancellation
			<-ctx.Done()
			<-finishOld
			return ctx.Err()
		}
		live.enter()
		defer live.leave()
		select {
		case <-release:
			return nil
		case <-ctx.Done():
			return ctx.Err()
		}
	}
	defer close(release)
	s.handlePeerJoined("a")
	s.handleManifestAccept("a", protocol.ManifestAccept{})
	s.maybeStartTransfers(context.Background())
	vpWaitStarted(t, started, 1)
	s.handlePeerLeft("a") // slot released, transfer cancelled (still winding down)
	s.handlePeerJoined("a")
	s.handleManifestAccept("a", protocol.ManifestAccept{})
	s.maybeStartTransfers(context.Background())
	vpWaitStarted(t, started, 1) // a's new transfer runs
	close(finishOld)             // the cancelled transfer finishes now
	time.Sleep(100 * time.Millisecond)
	s.handlePeerJoined("b")
	s.handleManifestAccept("b", protocol.ManifestAccept{})
	s.maybeStartTransfers(context.Background())
	vpWaitStarted(t, started, 1)
	if _, peak := live.get(); peak > 1 {
		s.mu.Lock()
		st := s.receivers["a"].Status
		s.mu.Unlock()
		t.Fatalf("VIOLATION-CONFIRMED: max-receivers=1 but %d uncancelled transfers ran simultaneously (status of a: %s)", peak, st)
	}
}
