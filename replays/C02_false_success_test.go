package transfer

// Replays for C02 (no false success).
//  receiver: a file whose only chunk fails its CRC is counted as completed; if the control stream
//            ends while the statistics callback of that failure is still running, the receiver returns nil.
//  sender:   the context is cancelled while every worker idles; the sender returns nil although the
//            receiver confirmed no file.

import (
	"context"
	"encoding/binary"
	"os"
	"path/filepath"
	"testing"
	"time"

	"github.com/sheerbytes/sheerbytes/pkg/manifest"
)

func TestVPReplayC02ReceiverCountsFailedFile(t *testing.T) {
	ctx, cancel := context.WithTimeout(context.Background(), 5*time.Second)
	defer cancel()
	t1, t2 := NewMockPair()
	sc, err := t1.Dial(ctx, "peer2")
	if err != nil {
		t.Fatal(err)
	}
	rc, err := t2.Accept(ctx)
	if err != nil {
		t.Fatal(err)
	}
	outDir := t.TempDir()
	item := manifest.FileItem{RelPath: "a.bin", Size: 4, ID: "0011223344556677"}
	m := manifest.Manifest{Root: "r", Items: []manifest.FileItem{item}, FileCount: 1, TotalBytes: 4}
	done := make(chan error, 1)
	go func() {
		_, err := RecvManifestMultiStream(ctx, rc, outDir, Options{
			TransferStatsFn: func(active, completed int, remaining int64) { time.Sleep(300 * time.Millisecond) },
		})
		done <- err
	}()
	ctrl, _ := sc.OpenStream(ctx)
	if err := writeControlHeader(ctrl, m); err != nil {
		t.Fatal(err)
	}
	data, _ := sc.OpenStream(ctx)
	go func() { // a sender that keeps reading what the receiver says
		buf := make([]byte, 256)
		for {
			if _, err := ctrl.Read(buf); err != nil {
				return
			}
		}
	}()
	writeDataStreams(ctrl, DataStreams{Count: 1})
	writeFileBegin(ctrl, FileBegin{RelPath: "a.bin", FileSize: 4, ChunkSize: 4, StreamID: fileKeyForItem(item)})
	time.Sleep(400 * time.Millisecond) // let the slow callback of FileBegin pass
	hdr := make([]byte, dataChunkHeaderLen)
	binary.BigEndian.PutUint64(hdr[0:8], fileKeyForItem(item))
	binary.BigEndian.PutUint32(hdr[8:12], 0)
	binary.BigEndian.PutUint32(hdr[12:16], 4)
	binary.BigEndian.PutUint32(hdr[16:20], 0xdeadbeef) // wrong checksum
	data.Write(hdr)
	data.Write([]byte{9, 9, 9, 9})
	time.Sleep(100 * time.Millisecond) // the reader is now inside finalizeFile(..., false, ...) → slow callback
	ctrl.Close()                       // control stream ends
	rerr := <-done
	got, _ := os.ReadFile(filepath.Join(outDir, "r", "a.bin"))
	if rerr == nil {
		t.Fatalf("VIOLATION: receiver returned nil although the only file failed its checksum (file on disk: %v)", got)
	}
	t.Logf("receiver error (expected): %v", rerr)
}

func TestVPReplayC02SenderNilOnCancel(t *testing.T) {
	ctx, cancel := context.WithCancel(context.Background())
	t1, t2 := NewMockPair()
	sc, err := t1.Dial(ctx, "peer2")
	if err != nil {
		t.Fatal(err)
	}
	rc, err := t2.Accept(ctx)
	if err != nil {
		t.Fatal(err)
	}
	srcDir := t.TempDir()
	os.WriteFile(filepath.Join(srcDir, "a.bin"), []byte("0123456789abcdef"), 0644)
	m, err := manifest.Scan(srcDir)
	if err != nil {
		t.Fatal(err)
	}
	// a receiver that accepts the streams and then stays silent
	go func() {
		rctx, rcancel := context.WithTimeout(context.Background(), 5*time.Second)
		defer rcancel()
		for i := 0; i < 2; i++ {
			st, err := rc.AcceptStream(rctx)
			if err != nil {
				return
			}
			go func() { // reads and discards, never answers
				buf := make([]byte, 4096)
				for {
					if _, err := st.Read(buf); err != nil {
						return
					}
				}
			}()
		}
		<-rctx.Done()
	}()
	done := make(chan error, 1)
	go func() {
		done <- SendManifestMultiStream(ctx, sc, srcDir, m, Options{ChunkSize: 4, ParallelFiles: 1, Resume: true, ResumeTimeout: 3 * time.Second})
	}()
	time.Sleep(300 * time.Millisecond) // workers idle: the file waits for the resume report
	cancel()
	select {
	case serr := <-done:
		if serr == nil {
			t.Fatalf("VIOLATION: sender returned nil after its context was cancelled; the receiver confirmed no file")
		}
		t.Logf("sender error (expected): %v", serr)
	case <-time.After(5 * time.Second):
		t.Fatalf("sender did not return")
	}
}
