package manifest

// Replay for C13 (relative paths pairwise distinct): equal base names are disambiguated with an
// ordinal prefix "1_", "2_", …; a third path whose own base name already looks like such a prefixed
// name collides with the generated one.

import (
	"os"
	"path/filepath"
	"testing"
)

func TestVPReplayC13DuplicateRelPath(t *testing.T) {
	dir := t.TempDir()
	mk := func(rel, content string) string {
		p := filepath.Join(dir, rel)
		os.MkdirAll(filepath.Dir(p), 0o755)
		if err := os.WriteFile(p, []byte(content), 0o644); err != nil {
			t.Fatal(err)
		}
		return p
	}
	paths := []string{mk("a/x", "first"), mk("b/x", "second!"), mk("c/1_x", "third one")}
	m, err := ScanPaths(paths)
	if err != nil {
		t.Fatal(err)
	}
	seen := map[string]int{}
	for _, it := range m.Items {
		seen[it.RelPath]++
	}
	for p, n := range seen {
		if n > 1 {
			t.Fatalf("VIOLATION-CONFIRMED: relative path %q is listed %d times: %+v", p, n, m.Items)
		}
	}
}
