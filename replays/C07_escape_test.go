package transfer

// Replay for the C07 confinement obligations: a hostile sender places parent references in a
// directory item's path and in an item id (used for the resume-metadata file name). After the receive
// attempt nothing may exist outside the chosen output directory.

import (
	"context"
	"os"
	"path/filepath"
	"sort"
	"strings"
	"testing"
	"time"

	"github.com/sheerbytes/sheerbytes/pkg/manifest"
)

func vpSnapshot(root string) []string {
	var out []string
	filepath.Walk(root, func(p string, info os.FileInfo, err error) error {
		if err == nil {
			out = append(out, strings.TrimPrefix(p, root))
		}
		return nil
	})
	sort.Strings(out)
	return out
}

func vpHostileReceive(t *testing.T, m manifest.Manifest, extra func(ctrl Stream)) (string, string, error) {
	sandbox := t.TempDir()
	outDir := filepath.Join(sandbox, "a", "b", "out")
	if err := os.MkdirAll(outDir, 0755); err != nil {
		t.Fatal(err)
	}
	ctx, cancel := context.WithTimeout(context.Background(), 3*time.Second)
	defer cancel()
	t1, t2 := NewMockPair()
	sc, err := t1.Dial(ctx, "peer2")
	if err != nil {
		t.Fatal(err)
	}
	rc, err := t2.Accept(ctx)
	if err != nil {
		t.Fatal(err)
	}
	done := make(chan error, 1)
	go func() {
		_, err := RecvManifestMultiStream(ctx, rc, outDir, Options{Resume: true})
		done <- err
	}()
	ctrl, err := sc.OpenStream(ctx)
	if err != nil {
		t.Fatal(err)
	}
	if err := writeControlHeader(ctrl, m); err != nil {
		t.Fatal(err)
	}
	if _, err := sc.OpenStream(ctx); err != nil {
		t.Fatal(err)
	}
	writeDataStreams(ctrl, DataStreams{Count: 1})
	if extra != nil {
		extra(ctrl)
	}
	var rerr error
	select {
	case rerr = <-done:
	case <-time.After(2 * time.Second):
		cancel()
		rerr = <-done
	}
	return sandbox, outDir, rerr
}

func vpOutside(sandbox, outDir string) []string {
	var bad []string
	rel := strings.TrimPrefix(outDir, sandbox)
	for _, p := range vpSnapshot(sandbox) {
		if p == "" || strings.HasPrefix(rel, p) || strings.HasPrefix(p, rel) {
			continue // the path to the output directory itself, or something inside it
		}
		bad = append(bad, p)
	}
	return bad
}

func TestVPReplayC07DirItemEscapes(t *testing.T) {
	m := manifest.Manifest{Root: "r", Items: []manifest.FileItem{{RelPath: "../../escaped_dir", IsDir: true, ID: "d1"}}, FolderCount: 1}
	sandbox, outDir, err := vpHostileReceive(t, m, nil)
	if bad := vpOutside(sandbox, outDir); len(bad) > 0 {
		t.Fatalf("VIOLATION: directory item path escaped the output directory: created %v (receiver returned %v)", bad, err)
	}
}

func TestVPReplayC07ItemIDEscapes(t *testing.T) {
	item := manifest.FileItem{RelPath: "f.bin", Size: 4, ID: "../../../escaped_id"}
	m := manifest.Manifest{Root: "r", Items: []manifest.FileItem{item}, FileCount: 1, TotalBytes: 4}
	sandbox, outDir, err := vpHostileReceive(t, m, func(ctrl Stream) {
		writeFileBegin(ctrl, FileBegin{RelPath: "f.bin", FileSize: 4, ChunkSize: 4, StreamID: fileKeyForItem(item)})
	})
	if bad := vpOutside(sandbox, outDir); len(bad) > 0 {
		t.Fatalf("VIOLATION: item id escaped the output directory: created %v (receiver returned %v)", bad, err)
	}
}

func TestVPReplayC07RootEscapes(t *testing.T) {
	m := manifest.Manifest{Root: "../../escaped_root", Items: []manifest.FileItem{{RelPath: "d", IsDir: true, ID: "d1"}}, FolderCount: 1}
	sandbox, outDir, err := vpHostileReceive(t, m, nil)
	if bad := vpOutside(sandbox, outDir); len(bad) > 0 {
		t.Fatalf("VIOLATION: manifest root escaped the output directory: created %v (receiver returned %v)", bad, err)
	}
}
