package main

// Replay for C14 (receivers per host): the handler counts the session's receivers with hub.List
// before the upgrade and registers the new receiver with hub.Add after it — two separate critical
// sections of the hub. Receivers that join at the same time all see the old count.

import (
	"fmt"
	"io"
	"log/slog"
	"net/http"
	"net/http/httptest"
	"strings"
	"sync"
	"testing"

	"github.com/gorilla/websocket"
	"github.com/sheerbytes/sheerbytes/internal/config"
	"github.com/sheerbytes/sheerbytes/internal/peers"
	"github.com/sheerbytes/sheerbytes/internal/session"
)

func TestVPReplayC14ReceiverLimitRace(t *testing.T) {
	const max = 1
	for attempt := 0; attempt < 30; attempt++ {
		store := session.NewStore(0)
		hub := peers.NewHub()
		expiry := newSessionExpiryManager()
		logger := slog.New(slog.NewTextHandler(io.Discard, nil))
		limits := newServerLimits(config.ServerConfig{MaxMessageBytes: 65536, MaxReceiversPerSender: max})
		srv := httptest.NewServer(http.HandlerFunc(func(w http.ResponseWriter, r *http.Request) {
			handleWebSocket(w, r, store, hub, expiry, logger, limits, nil)
		}))
		sess := store.Create()
		base := "ws" + strings.TrimPrefix(srv.URL, "http")
		var wg sync.WaitGroup
		var mu sync.Mutex
		var conns []*websocket.Conn
		start := make(chan struct{})
		for i := 0; i < 16; i++ {
			wg.Add(1)
			go func(i int) {
				defer wg.Done()
				<-start
				c, _, err := websocket.DefaultDialer.Dial(fmt.Sprintf("%s/ws?join_code=%s&peer_id=r%d&role=receiver", base, sess.JoinCode, i), nil)
				if err != nil {
					return
				}
				mu.Lock()
				conns = append(conns, c)
				mu.Unlock()
			}(i)
		}
		close(start)
		wg.Wait()
		receivers := 0
		for _, p := range hub.List(sess.ID) {
			if p.Role == "receiver" {
				receivers++
			}
		}
		for _, c := range conns {
			c.Close()
		}
		srv.Close()
		if receivers > max {
			t.Fatalf("VIOLATION-CONFIRMED: --max-receivers-per-sender %d but %d receivers are connected to the session at once (attempt %d)", max, receivers, attempt+1)
		}
	}
	t.Log("limit held in every burst")
}
