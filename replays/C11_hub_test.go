package peers

// Replays for C11 (the hub survives any interleaving).
//  send-after-unlock: Broadcast copies the peer list, releases the read lock and then sends; a remove
//                     that runs in between closes the channel: "send on closed channel" panic.
//  stale gc:          remove() keeps the inner map it saw in phase 1 and, after waiting for the writer,
//                     deletes the session entry if *that* map is empty — also when the session was
//                     re-created meanwhile: a connected peer is no longer routable.

import (
	"fmt"
	"sync"
	"testing"
	"time"

	"github.com/sheerbytes/sheerbytes/pkg/protocol"
)

func TestVPReplayC11BroadcastAfterClose(t *testing.T) {
	h := NewHub()
	env := protocol.Envelope{Type: "x"}
	var panicked interface{}
	var pmu sync.Mutex
	stop := make(chan struct{})
	var wg sync.WaitGroup
	for w := 0; w < 4; w++ {
		wg.Add(1)
		go func() {
			defer wg.Done()
			defer func() {
				if r := recover(); r != nil {
					pmu.Lock()
					panicked = r
					pmu.Unlock()
				}
			}()
			for {
				select {
				case <-stop:
					return
				default:
				}
				h.Broadcast("s", env)
				h.BroadcastExcept("s", "nobody", env)
			}
		}()
	}
	deadline := time.Now().Add(8 * time.Second)
	for i := 0; time.Now().Before(deadline); i++ {
		pmu.Lock()
		p := panicked
		pmu.Unlock()
		if p != nil {
			break
		}
		rm := h.Add("s", Peer{PeerID: fmt.Sprintf("p%d", i%3), Role: "receiver", ConnID: fmt.Sprintf("c%d", i)}, func(protocol.Envelope) error { return nil }, nil)
		rm()
	}
	close(stop)
	wg.Wait()
	if panicked != nil {
		t.Fatalf("VIOLATION-CONFIRMED: Broadcast panicked while a peer was being removed: %v", panicked)
	}
}

func TestVPReplayC11StaleSessionGC(t *testing.T) {
	h := NewHub()
	blockA := make(chan struct{})
	blockB := make(chan struct{})
	// writers that never finish make remove() wait in its second phase (up to 1s)
	rmA := h.Add("s", Peer{PeerID: "a", ConnID: "ca"}, func(protocol.Envelope) error { <-blockA; return nil }, nil)
	rmB := h.Add("s", Peer{PeerID: "b", ConnID: "cb"}, func(protocol.Envelope) error { <-blockB; return nil }, nil)
	h.SendTo("s", "a", protocol.Envelope{Type: "x"}) // writers are now busy in send()
	h.SendTo("s", "b", protocol.Envelope{Type: "x"})
	time.Sleep(50 * time.Millisecond)
	doneA := make(chan struct{})
	doneB := make(chan struct{})
	go func() { rmA(); close(doneA) }() // phase 1 now, phase 3 in ~1s
	time.Sleep(300 * time.Millisecond)
	go func() { rmB(); close(doneB) }() // phase 1 now, phase 3 ~300ms after A's
	<-doneA                                // A's phase 3 deleted the (empty) session
	// a new peer connects to the same session: a new inner map is created
	rmC := h.Add("s", Peer{PeerID: "c", ConnID: "cc"}, func(protocol.Envelope) error { return nil }, nil)
	defer rmC()
	if !h.SendTo("s", "c", protocol.Envelope{Type: "x"}) {
		t.Fatal("c not routable right after Add")
	}
	<-doneB // B's phase 3 sees its old, empty inner map
	close(blockA)
	close(blockB)
	if !h.SendTo("s", "c", protocol.Envelope{Type: "x"}) {
		t.Fatalf("VIOLATION-CONFIRMED: peer c is connected (never removed) but no longer routable; listed peers: %v", h.List("s"))
	}
}
