package app

// Replay for C07 (obligation app.clearResumeData/site:confine:os.RemoveAll): the root name comes from
// the sender's manifest offer; with parent references in it, "overwrite instead of resume" removes a
// resume-metadata directory outside the chosen output directory.

import (
	"os"
	"path/filepath"
	"testing"
)

func TestVPReplayC07ClearResumeEscapes(t *testing.T) {
	sandbox := t.TempDir()
	outDir := filepath.Join(sandbox, "a", "b", "out")
	victim := filepath.Join(sandbox, "a", "victim", ".thruflux_resumedata")
	for _, d := range []string{outDir, victim} {
		if err := os.MkdirAll(d, 0755); err != nil {
			t.Fatal(err)
		}
	}
	if err := os.WriteFile(filepath.Join(victim, "x.sbxmap"), []byte("keep me"), 0644); err != nil {
		t.Fatal(err)
	}
	root := "../../victim" // as received in offer.Summary.RootName
	_ = hasResumeData(outDir, root)
	_ = clearResumeData(outDir, root)
	if _, err := os.Stat(victim); err != nil {
		t.Fatalf("VIOLATION: clearResumeData(outDir, %q) removed %s, which is outside the output directory", root, victim)
	}
}
