package main

// Replay for C14 (concurrent session limit): the /session handler checks store.Count() and then
// calls store.Create() in two separate critical sections, so a burst of concurrent requests can
// create more sessions than --max-sessions. The test starts the real server (main()) in a child
// process with --max-sessions 1 and fires a burst of POST /session; more than one 201 is a violation.

import (
	"fmt"
	"net"
	"net/http"
	"os"
	"os/exec"
	"sync"
	"testing"
	"time"
)

func TestMain(m *testing.M) {
	if port := os.Getenv("VP_RUN_THRUSERV_PORT"); port != "" {
		os.Args = []string{"thruserv", "--port", port, "--max-sessions", "1", "--session-creates-per-min", "0"}
		main()
		return
	}
	os.Exit(m.Run())
}

func vpFreePort(t *testing.T) int {
	l, err := net.Listen("tcp", "127.0.0.1:0")
	if err != nil {
		t.Fatal(err)
	}
	defer l.Close()
	return l.Addr().(*net.TCPAddr).Port
}

func TestVPReplayC14SessionLimitRace(t *testing.T) {
	const burst = 64
	for attempt := 0; attempt < 40; attempt++ {
		port := vpFreePort(t)
		cmd := exec.Command(os.Args[0], "-test.run=^$")
		cmd.Env = append(os.Environ(), fmt.Sprintf("VP_RUN_THRUSERV_PORT=%d", port))
		if err := cmd.Start(); err != nil {
			t.Fatal(err)
		}
		base := fmt.Sprintf("http://127.0.0.1:%d", port)
		up := false
		for i := 0; i < 100; i++ {
			if r, err := http.Get(base + "/health"); err == nil {
				r.Body.Close()
				up = true
				break
			}
			time.Sleep(20 * time.Millisecond)
		}
		if !up {
			cmd.Process.Kill()
			cmd.Wait()
			continue
		}
		var wg sync.WaitGroup
		var mu sync.Mutex
		created := 0
		start := make(chan struct{})
		for i := 0; i < burst; i++ {
			wg.Add(1)
			go func() {
				defer wg.Done()
				<-start
				r, err := http.Post(base+"/session", "application/json", nil)
				if err != nil {
					return
				}
				r.Body.Close()
				if r.StatusCode == http.StatusCreated {
					mu.Lock()
					created++
					mu.Unlock()
				}
			}()
		}
		close(start)
		wg.Wait()
		cmd.Process.Kill()
		cmd.Wait()
		if created > 1 {
			t.Fatalf("VIOLATION-CONFIRMED: --max-sessions 1 but %d sessions were created by %d concurrent requests (attempt %d)", created, burst, attempt+1)
		}
	}
	t.Log("limit held in every burst")
}
