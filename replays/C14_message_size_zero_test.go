package main

// Replay for C14 ("a limit set to 0 means no limit", message size): with --max-message-bytes 0 the
// read limit of the socket is not set, but the read loop still rejects every message above 64 KiB.

import (
	"fmt"
	"io"
	"log/slog"
	"net/http"
	"net/http/httptest"
	"strings"
	"testing"
	"time"

	"github.com/gorilla/websocket"
	"github.com/sheerbytes/sheerbytes/internal/config"
	"github.com/sheerbytes/sheerbytes/internal/peers"
	"github.com/sheerbytes/sheerbytes/internal/session"
)

func TestVPReplayC14MessageSizeZeroStillLimited(t *testing.T) {
	store := session.NewStore(0)
	hub := peers.NewHub()
	expiry := newSessionExpiryManager()
	logger := slog.New(slog.NewTextHandler(io.Discard, nil))
	limits := newServerLimits(config.ServerConfig{MaxMessageBytes: 0})
	srv := httptest.NewServer(http.HandlerFunc(func(w http.ResponseWriter, r *http.Request) {
		handleWebSocket(w, r, store, hub, expiry, logger, limits, nil)
	}))
	defer srv.Close()
	sess := store.Create()
	base := "ws" + strings.TrimPrefix(srv.URL, "http")
	dial := func(id, role string) *websocket.Conn {
		c, _, err := websocket.DefaultDialer.Dial(fmt.Sprintf("%s/ws?join_code=%s&peer_id=%s&role=%s", base, sess.JoinCode, id, role), nil)
		if err != nil {
			t.Fatal(err)
		}
		return c
	}
	a := dial("alice", "sender")
	defer a.Close()
	b := dial("bob", "receiver")
	defer b.Close()
	time.Sleep(100 * time.Millisecond)
	big := strings.Repeat("x", 100*1024)
	msg := fmt.Sprintf(`{"v":1,"type":"ice_candidate","msg_id":"m1","to":"bob","payload":{"blob":"%s"}}`, big)
	if err := a.WriteMessage(websocket.TextMessage, []byte(msg)); err != nil {
		t.Fatal(err)
	}
	got := false
	b.SetReadDeadline(time.Now().Add(2 * time.Second))
	for i := 0; i < 10; i++ {
		_, data, err := b.ReadMessage()
		if err != nil {
			break
		}
		if strings.Contains(string(data), `"msg_id":"m1"`) {
			got = true
			break
		}
	}
	if !got {
		t.Fatalf("VIOLATION-CONFIRMED: --max-message-bytes 0 (no limit) but a %d-byte message was not relayed (the sender's connection is closed at 64 KiB)", len(msg))
	}
}
