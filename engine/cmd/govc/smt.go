package main

// SMT term DAG, hash-consed, with a printer that hoists shared sub-terms into
// define-funs (never those that mention a bound variable).

import (
	"fmt"
	"strconv"
	"math/big"
	"sort"
	"strings"
)

type Node struct {
	Op    string // operator or leaf text
	Args  []*Node
	Sort  string
	id    int
	bound bool // mentions a quantifier-bound variable
	// for quantifiers: Op == "forall"/"exists", Binders "(x Int) (y Int)"
	Binders string
	Pattern []*Node
}

type TermStore struct {
	tab   map[string]*Node
	next  int
	decls map[string]string // name -> declaration line
	order []string
	fresh map[string]int
}

func NewTermStore() *TermStore {
	return &TermStore{tab: map[string]*Node{}, decls: map[string]string{}, fresh: map[string]int{}}
}

var TS *TermStore

func (ts *TermStore) mk(op, sortS string, args ...*Node) *Node {
	var sb strings.Builder
	sb.WriteString(op)
	sb.WriteByte('|')
	sb.WriteString(sortS)
	b := false
	for _, a := range args {
		fmt.Fprintf(&sb, ",%d", a.id)
		if a.bound {
			b = true
		}
	}
	k := sb.String()
	if n, ok := ts.tab[k]; ok {
		return n
	}
	ts.next++
	n := &Node{Op: op, Args: args, Sort: sortS, id: ts.next, bound: b}
	ts.tab[k] = n
	return n
}

// Leaf constant symbol (declared).
func (ts *TermStore) Const(name, sortS string) *Node {
	name = sanitize(name)
	if _, ok := ts.decls[name]; !ok {
		ts.decls[name] = fmt.Sprintf("(declare-fun %s () %s)", name, sortS)
		ts.order = append(ts.order, name)
	}
	return ts.mk(name, sortS)
}

func (ts *TermStore) Fresh(prefix, sortS string) *Node {
	prefix = sanitize(prefix)
	ts.fresh[prefix]++
	return ts.Const(fmt.Sprintf("%s!%d", prefix, ts.fresh[prefix]), sortS)
}

// Uninterpreted function declaration.
func (ts *TermStore) DeclFun(name string, argSorts []string, ret string) {
	if _, ok := ts.decls[name]; !ok {
		ts.decls[name] = fmt.Sprintf("(declare-fun %s (%s) %s)", name, strings.Join(argSorts, " "), ret)
		ts.order = append(ts.order, name)
	}
}

func (ts *TermStore) DeclSort(name string) {
	k := "sort:" + name
	if _, ok := ts.decls[k]; !ok {
		ts.decls[k] = fmt.Sprintf("(declare-sort %s 0)", name)
		ts.order = append(ts.order, k)
	}
}

func sanitize(s string) string {
	var sb strings.Builder
	for _, r := range s {
		switch {
		case r >= 'a' && r <= 'z', r >= 'A' && r <= 'Z', r >= '0' && r <= '9', r == '_', r == '.', r == '!', r == '$':
			sb.WriteRune(r)
		default:
			sb.WriteByte('_')
		}
	}
	return sb.String()
}

func BoundVar(name, sortS string) *Node {
	n := TS.mk("bv:"+name, sortS)
	n.bound = true
	return n
}

func App(op, sortS string, args ...*Node) *Node { return TS.mk(op, sortS, args...) }

var (
	tTrue, tFalse *Node
)

func initTerms() {
	TS = NewTermStore()
	tTrue = TS.mk("true", "Bool")
	tFalse = TS.mk("false", "Bool")
}

func IntLit(v int64) *Node { return BigLit(big.NewInt(v)) }
func BigLit(v *big.Int) *Node {
	if v.Sign() < 0 {
		return TS.mk(fmt.Sprintf("(- %s)", new(big.Int).Neg(v).String()), "Int")
	}
	return TS.mk(v.String(), "Int")
}
func BVLit(v *big.Int, w int) *Node {
	m := new(big.Int).Lsh(big.NewInt(1), uint(w))
	x := new(big.Int).Mod(v, m)
	return TS.mk(fmt.Sprintf("(_ bv%s %d)", x.String(), w), bvSort(w))
}
func bvSort(w int) string { return fmt.Sprintf("(_ BitVec %d)", w) }

func And(xs ...*Node) *Node {
	var out []*Node
	seen := map[int]bool{}
	for _, x := range xs {
		if x == tTrue {
			continue
		}
		if x == tFalse {
			return tFalse
		}
		if x.Op == "and" {
			for _, y := range x.Args {
				if !seen[y.id] {
					seen[y.id] = true
					out = append(out, y)
				}
			}
			continue
		}
		if !seen[x.id] {
			seen[x.id] = true
			out = append(out, x)
		}
	}
	if len(out) == 0 {
		return tTrue
	}
	if len(out) == 1 {
		return out[0]
	}
	return TS.mk("and", "Bool", out...)
}

func Or(xs ...*Node) *Node {
	var out []*Node
	seen := map[int]bool{}
	for _, x := range xs {
		if x == tFalse {
			continue
		}
		if x == tTrue {
			return tTrue
		}
		if !seen[x.id] {
			seen[x.id] = true
			out = append(out, x)
		}
	}
	if len(out) == 0 {
		return tFalse
	}
	if len(out) == 1 {
		return out[0]
	}
	return TS.mk("or", "Bool", out...)
}

func Not(x *Node) *Node {
	if x == tTrue {
		return tFalse
	}
	if x == tFalse {
		return tTrue
	}
	if x.Op == "not" {
		return x.Args[0]
	}
	return TS.mk("not", "Bool", x)
}

func Implies(a, b *Node) *Node {
	if a == tTrue {
		return b
	}
	if a == tFalse || b == tTrue {
		return tTrue
	}
	return TS.mk("=>", "Bool", a, b)
}

func Eq(a, b *Node) *Node {
	if a == b {
		return tTrue
	}
	if a.Sort != b.Sort {
		panic(fmt.Sprintf("Eq sort mismatch: %s : %s vs %s : %s", Show(a), a.Sort, Show(b), b.Sort))
	}
	return TS.mk("=", "Bool", a, b)
}

func Ite(c, a, b *Node) *Node {
	if c == tTrue {
		return a
	}
	if c == tFalse {
		return b
	}
	if a == b {
		return a
	}
	if a.Sort != b.Sort {
		panic(fmt.Sprintf("Ite sort mismatch: %s vs %s", a.Sort, b.Sort))
	}
	if a.Sort == "Bool" {
		if a == tTrue && b == tFalse {
			return c
		}
		if a == tFalse && b == tTrue {
			return Not(c)
		}
	}
	return TS.mk("ite", a.Sort, c, a, b)
}

func Select(arr, idx *Node) *Node {
	// (Array K V)
	v := arrayValSort(arr.Sort)
	// simplify select(store(a,i,v),j): i == j → v; i, j provably distinct (same base, different
	// constant offsets, or distinct literals) → look through the store
	for arr.Op == "store" {
		if arr.Args[1] == idx {
			return arr.Args[2]
		}
		if distinctOffsets(arr.Args[1], idx) {
			arr = arr.Args[0]
			continue
		}
		break
	}
	if arr.Op == "ite" && (arr.Args[1].Op == "store" || arr.Args[2].Op == "store") && selectDepth < 6 {
		selectDepth++
		a, b := Select(arr.Args[1], idx), Select(arr.Args[2], idx)
		selectDepth--
		return Ite(arr.Args[0], a, b)
	}
	return TS.mk("select", v, arr, idx)
}

var selectDepth int

// distinctOffsets: a = (+ base k1), b = (+ base k2) with k1 != k2, or two different integer literals.
func distinctOffsets(a, b *Node) bool {
	split := func(n *Node) (*Node, string, bool) {
		if n.Op == "+" && len(n.Args) == 2 && len(n.Args[1].Args) == 0 && n.Args[1].Sort == "Int" && isDigits(n.Args[1].Op) {
			return n.Args[0], n.Args[1].Op, true
		}
		if len(n.Args) == 0 && n.Sort == "Int" && isDigits(n.Op) {
			return nil, n.Op, true
		}
		return nil, "", false
	}
	ba, ka, ok1 := split(a)
	bb, kb, ok2 := split(b)
	if !ok1 || !ok2 {
		return false
	}
	if ba == bb {
		return ka != kb
	}
	if ba == nil || bb == nil {
		return false
	}
	// different allocation bases: base2 >= base1 + n (recorded when the counter was bumped), so
	// every reference base1 + k with k < n lies strictly below base2 + anything
	na, _ := strconv.Atoi(ka)
	nb, _ := strconv.Atoi(kb)
	return baseAbove(bb, ba, na) || baseAbove(ba, bb, nb)
}

// allocLower[b] = (prev, n): b >= prev + n.
var allocLower = map[*Node]struct {
	prev *Node
	n    int
}{}

// baseAbove: hi >= lo + m for some m > k (following the recorded chain).
func baseAbove(hi, lo *Node, k int) bool {
	total := 0
	cur := hi
	for i := 0; i < 64; i++ {
		l, ok := allocLower[cur]
		if !ok {
			return false
		}
		total += l.n
		if l.prev == lo {
			return total > k
		}
		cur = l.prev
	}
	return false
}

func isDigits(s string) bool {
	if s == "" {
		return false
	}
	for _, c := range s {
		if c < '0' || c > '9' {
			return false
		}
	}
	return true
}

func Store(arr, idx, val *Node) *Node {
	if arrayValSort(arr.Sort) != val.Sort {
		panic(fmt.Sprintf("Store sort mismatch: arr %s val %s (%s)", arr.Sort, val.Sort, Show(val)))
	}
	return TS.mk("store", arr.Sort, arr, idx, val)
}

func arraySort(k, v string) string { return fmt.Sprintf("(Array %s %s)", k, v) }

// split "(Array K V)" into K, V
func arrayParts(s string) (string, string) {
	if !strings.HasPrefix(s, "(Array ") {
		panic("not an array sort: " + s)
	}
	body := s[len("(Array ") : len(s)-1]
	depth := 0
	for i, c := range body {
		switch c {
		case '(':
			depth++
		case ')':
			depth--
		case ' ':
			if depth == 0 {
				return body[:i], body[i+1:]
			}
		}
	}
	panic("bad array sort " + s)
}
func arrayValSort(s string) string { _, v := arrayParts(s); return v }
func arrayKeySort(s string) string { k, _ := arrayParts(s); return k }

func Forall(vars []*Node, body *Node) *Node { return quant("forall", vars, body) }
func Exists(vars []*Node, body *Node) *Node { return quant("exists", vars, body) }

func quant(q string, vars []*Node, body *Node) *Node {
	if len(vars) == 0 {
		return body
	}
	var sb strings.Builder
	for _, v := range vars {
		fmt.Fprintf(&sb, "(%s %s)", varName(v), v.Sort)
	}
	n := TS.mk(q+"|"+sb.String(), "Bool", body)
	n.Binders = sb.String()
	// bound flag: recompute — quantifier closes its own vars, but may still mention outer ones.
	n.bound = mentionsBoundExcept(body, vars)
	return n
}

func mentionsBoundExcept(n *Node, vars []*Node) bool {
	ex := map[int]bool{}
	for _, v := range vars {
		ex[v.id] = true
	}
	seen := map[int]bool{}
	var rec func(*Node) bool
	rec = func(x *Node) bool {
		if !x.bound || seen[x.id] {
			return false
		}
		seen[x.id] = true
		if strings.HasPrefix(x.Op, "bv:") {
			return !ex[x.id]
		}
		if x.Binders != "" {
			// inner quantifier: its own flag already accounts for its own binders
			// but may mention ours; descend
		}
		for _, a := range x.Args {
			if rec(a) {
				return true
			}
		}
		return false
	}
	return rec(n)
}

func varName(v *Node) string { return sanitize(strings.TrimPrefix(v.Op, "bv:")) }

// ---------- printing ----------

func Show(n *Node) string {
	var sb strings.Builder
	show(&sb, n, nil, 0)
	return sb.String()
}

func show(sb *strings.Builder, n *Node, named map[int]bool, depth int) {
	if named != nil && named[n.id] {
		fmt.Fprintf(sb, "n!%d", n.id)
		return
	}
	if strings.HasPrefix(n.Op, "bv:") {
		sb.WriteString(varName(n))
		return
	}
	if n.Binders != "" {
		q := n.Op[:strings.Index(n.Op, "|")]
		fmt.Fprintf(sb, "(%s (%s) ", q, n.Binders)
		if len(n.Pattern) > 0 {
			sb.WriteString("(! ")
		}
		show(sb, n.Args[0], named, depth+1)
		if len(n.Pattern) > 0 {
			sb.WriteString(" :pattern (")
			for _, p := range n.Pattern {
				show(sb, p, named, depth+1)
			}
			sb.WriteString("))")
		}
		sb.WriteString(")")
		return
	}
	if len(n.Args) == 0 {
		sb.WriteString(n.Op)
		return
	}
	sb.WriteByte('(')
	sb.WriteString(n.Op)
	for _, a := range n.Args {
		sb.WriteByte(' ')
		show(sb, a, named, depth+1)
	}
	sb.WriteByte(')')
}

// Script builds an SMT-LIB2 script asserting all of `asserts`.
func Script(asserts []*Node, logicOpts string, wantModel bool) string {
	// count references
	refs := map[int]int{}
	var order []*Node
	seen := map[int]bool{}
	var walk func(n *Node)
	walk = func(n *Node) {
		refs[n.id]++
		if seen[n.id] {
			return
		}
		seen[n.id] = true
		for _, a := range n.Args {
			walk(a)
		}
		order = append(order, n) // post-order: children first
	}
	for _, a := range asserts {
		walk(a)
	}
	named := map[int]bool{}
	var sb strings.Builder
	if wantModel {
		sb.WriteString("(set-option :produce-models true)\n")
	}
	sb.WriteString(logicOpts)
	// declarations actually used
	used := map[string]bool{}
	usesStr, usesIface := false, false
	for _, n := range order {
		if len(n.Args) == 0 {
			used[n.Op] = true
		} else {
			used[n.Op] = true
		}
		if strings.Contains(n.Sort, "Str") {
			usesStr = true
		}
		if strings.Contains(n.Sort, "Iface") {
			usesIface = true
		}
	}
	_ = usesStr
	_ = usesIface
	for _, k := range TS.order {
		if strings.HasPrefix(k, "sort:") {
			sb.WriteString(TS.decls[k])
			sb.WriteByte('\n')
		}
	}
	for _, k := range TS.order {
		if strings.HasPrefix(k, "sort:") {
			continue
		}
		if used[k] {
			sb.WriteString(TS.decls[k])
			sb.WriteByte('\n')
		}
	}
	for _, n := range order {
		if n.bound || len(n.Args) == 0 {
			continue
		}
		if refs[n.id] > 1 {
			sb.WriteString(fmt.Sprintf("(define-fun n!%d () %s ", n.id, n.Sort))
			show(&sb, n, named, 0)
			sb.WriteString(")\n")
			named[n.id] = true
		}
	}
	for _, a := range asserts {
		sb.WriteString("(assert ")
		show(&sb, a, named, 0)
		sb.WriteString(")\n")
	}
	sb.WriteString("(check-sat)\n")
	if wantModel {
		sb.WriteString("(get-model)\n")
	}
	return sb.String()
}

func termSize(asserts []*Node) int {
	seen := map[int]bool{}
	var walk func(n *Node)
	walk = func(n *Node) {
		if seen[n.id] {
			return
		}
		seen[n.id] = true
		for _, a := range n.Args {
			walk(a)
		}
	}
	for _, a := range asserts {
		walk(a)
	}
	return len(seen)
}

// free constant symbols (declared consts) in terms, for model extraction
func freeConsts(asserts []*Node) []*Node {
	seen := map[int]bool{}
	var out []*Node
	var walk func(n *Node)
	walk = func(n *Node) {
		if seen[n.id] {
			return
		}
		seen[n.id] = true
		if len(n.Args) == 0 {
			if _, ok := TS.decls[n.Op]; ok {
				out = append(out, n)
			}
		}
		for _, a := range n.Args {
			walk(a)
		}
	}
	for _, a := range asserts {
		walk(a)
	}
	sort.Slice(out, func(i, j int) bool { return out[i].Op < out[j].Op })
	return out
}
