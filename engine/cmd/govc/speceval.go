package main

// Evaluation of specification expressions over a symbolic state.

import (
	"fmt"
	"go/ast"
	"go/constant"
	"go/token"
	"go/types"
	"math/big"
	"strconv"
	"strings"

	"golang.org/x/tools/go/ssa"
)

type specVar struct {
	v Value
	t types.Type
}

type SpecCtx struct {
	hyp     bool // this position is on the hypothesis side of the query being built
	e       *Exec
	st      *State
	old     *State
	vars    map[string]specVar
	pkg     *types.Package
	current bool // identifiers denote current values of local cells (loop invariants, sites) rather than entry values
	depth   int
	callArgs bool
	underNot bool
}

// ghost array type: element type; value is an SMT array term indexed by idxSort
type ghostArrT struct{ elem types.Type }

func (g *ghostArrT) Underlying() types.Type { return g }
func (g *ghostArrT) String() string         { return "ghost[]" + g.elem.String() }

func (e *Exec) pkgTypes() *types.Package {
	if e.fn != nil && e.fn.Pkg != nil {
		return e.fn.Pkg.Pkg
	}
	if e.fn != nil && e.fn.Parent() != nil {
		p := e.fn
		for p.Parent() != nil {
			p = p.Parent()
		}
		return p.Pkg.Pkg
	}
	return e.lemmaPkg
}

// asHyp evaluates f with clause evaluation in hypothesis mode.
func (e *Exec) asHyp(f func() *Node) *Node {
	saved := e.hypMode
	e.hypMode = true
	defer func() { e.hypMode = saved }()
	return f()
}

func (e *Exec) evalClause(c *Clause, st, old *State, extra map[string]specVar) *Node {
	ctx := &SpecCtx{e: e, st: st, old: old, vars: map[string]specVar{}, pkg: e.pkgTypes(), hyp: e.hypMode}
	for k, v := range extra {
		ctx.vars[k] = v
	}
	if _, ok := extra["$current"]; ok {
		ctx.current = true
	}
	oldPC := old.pc
	v, _ := ctx.eval(c.Expr)
	n, ok := v.(*Node)
	if !ok {
		panic(fmt.Sprintf("clause %q does not evaluate to a formula", c.Text))
	}
	carryOldFacts(st, old, oldPC)
	return n
}

// carryOldFacts: reading old-state values adds their type-range facts (len >= 0, integer ranges) to
// the old state's path condition; the current state descends from the old one, so they hold there too.
func carryOldFacts(st, old *State, oldPC *Node) {
	if old != nil && old != st && old.pc != oldPC {
		st.assume(old.pc)
	}
}

func (e *Exec) evalClauseCur(c *Clause, st, old *State, extra map[string]specVar) *Node {
	if extra == nil {
		extra = map[string]specVar{}
	}
	extra["$current"] = specVar{}
	return e.evalClause(c, st, old, extra)
}

func (c *SpecCtx) fail(format string, args ...interface{}) {
	panic(unsupportedErr{"spec: " + fmt.Sprintf(format, args...)})
}

func (c *SpecCtx) eval(n *SpecNode) (Value, types.Type) {
	switch n.Kind {
	case "imp":
		c.hyp = !c.hyp
		l, _ := c.eval(n.L)
		c.hyp = !c.hyp
		if l == Value(tFalse) {
			return tTrue, types.Typ[types.Bool] // the consequent may mention variables that do not exist here
		}
		r, _ := c.eval(n.R)
		return Implies(l.(*Node), r.(*Node)), types.Typ[types.Bool]
	case "iff":
		l, _ := c.eval(n.L)
		r, _ := c.eval(n.R)
		return Eq(l.(*Node), r.(*Node)), types.Typ[types.Bool]
	case "forall", "exists":
		saved := map[string]*specVar{}
		var bvs []*Node
		var ranges []*Node
		for _, b := range n.Vars {
			t := c.resolveTypeName(b.Type)
			sortS := c.e.mode.leafSort(t)
			if old, ok := c.vars[b.Name]; ok {
				o := old
				saved[b.Name] = &o
			} else {
				saved[b.Name] = nil
			}
			if sortS == "" {
				// a struct-typed bound variable: one bound variable per scalar leaf
				if _, isStruct := t.Underlying().(*types.Struct); !isStruct {
					c.fail("quantified variable %s of composite type %s", b.Name, b.Type)
				}
				c.e.qcount++
				qn := c.e.qcount
				sv := c.e.mode.build(t, func(li leafInfo) *Node {
					lb := BoundVar(fmt.Sprintf("%s%s!%d", b.Name, sanitize(li.Path), qn), li.Sort)
					bvs = append(bvs, lb)
					if li.T != nil {
						if _, _, ok := intInfo(li.T); ok {
							ranges = append(ranges, c.e.ar.inRange(lb, li.T))
						}
					}
					return lb
				})
				c.vars[b.Name] = specVar{sv, t}
				continue
			}
			c.e.qcount++
			bv := BoundVar(fmt.Sprintf("%s!%d", b.Name, c.e.qcount), sortS)
			c.vars[b.Name] = specVar{bv, t}
			bvs = append(bvs, bv)
			if _, _, ok := intInfo(t); ok && !isMath(t) {
				ranges = append(ranges, c.e.ar.inRange(bv, t))
			}
		}
		body, _ := c.eval(n.Body)
		for k, v := range saved {
			if v == nil {
				delete(c.vars, k)
			} else {
				c.vars[k] = *v
			}
		}
		if n.Kind == "forall" {
			if c.hyp && !c.underNot && len(bvs) == 1 && c.e.mode == ModeInt {
				return withTriggerVariants(bvs[0], Implies(And(ranges...), body.(*Node))), types.Typ[types.Bool]
			}
			return Forall(bvs, Implies(And(ranges...), body.(*Node))), types.Typ[types.Bool]
		}
		return Exists(bvs, And(And(ranges...), body.(*Node))), types.Typ[types.Bool]
	case "go":
		return c.expr(n.Go, n)
	}
	panic("bad spec node")
}

func (c *SpecCtx) resolveTypeName(s string) types.Type {
	ex, err := parserParseExpr(s)
	if err != nil {
		c.fail("bad type %q", s)
	}
	return c.resolveType(ex)
}

func (c *SpecCtx) resolveType(ex ast.Expr) types.Type {
	switch x := ex.(type) {
	case *ast.Ident:
		if x.Name == "Z" {
			return mathInt
		}
		if x.Name == "bytes" {
			return &ghostArrT{elem: types.Typ[types.Uint8]}
		}
		if obj := types.Universe.Lookup(x.Name); obj != nil {
			if tn, ok := obj.(*types.TypeName); ok {
				return tn.Type()
			}
		}
		if c.pkg != nil {
			if obj := c.pkg.Scope().Lookup(x.Name); obj != nil {
				if tn, ok := obj.(*types.TypeName); ok {
					return tn.Type()
				}
			}
		}
	case *ast.StarExpr:
		if t := c.resolveType(x.X); t != nil {
			return types.NewPointer(t)
		}
	case *ast.ArrayType:
		if t := c.resolveType(x.Elt); t != nil {
			if x.Len == nil {
				return types.NewSlice(t)
			}
			if bl, ok := x.Len.(*ast.BasicLit); ok {
				n, _ := strconv.ParseInt(bl.Value, 0, 64)
				return types.NewArray(t, n)
			}
		}
	case *ast.SelectorExpr:
		if id, ok := x.X.(*ast.Ident); ok && c.pkg != nil {
			for _, imp := range c.pkg.Imports() {
				if imp.Name() == id.Name {
					if obj := imp.Scope().Lookup(x.Sel.Name); obj != nil {
						if tn, ok := obj.(*types.TypeName); ok {
							return tn.Type()
						}
					}
				}
			}
		}
	case *ast.ParenExpr:
		return c.resolveType(x.X)
	case *ast.InterfaceType:
		return types.NewInterfaceType(nil, nil)
	}
	return nil
}

func (c *SpecCtx) state() *State { return c.st }

// coerce an untyped constant to type t
func (c *SpecCtx) coerce(v Value, vt types.Type, t types.Type) *Node {
	if cv, ok := v.(*ConstV); ok {
		if isFloat(t) {
			return TS.mk(cv.V.String()+".0", "Real")
		}
		return c.e.ar.lit(cv.V, t)
	}
	if _, isNil := v.(nilV); isNil {
		return IntLit(0)
	}
	n, ok := v.(*Node)
	if !ok {
		c.fail("expected scalar, got %T", v)
	}
	if isMath(t) && vt != nil && !isMath(vt) {
		return c.e.ar.Convert(n, vt, mathInt)
	}
	return n
}

func (c *SpecCtx) expr(ex ast.Expr, sn *SpecNode) (Value, types.Type) {
	e := c.e
	switch x := ex.(type) {
	case *ast.ParenExpr:
		return c.expr(x.X, sn)
	case *ast.BasicLit:
		switch x.Kind {
		case token.INT:
			v, ok := new(big.Int).SetString(x.Value, 0)
			if !ok {
				c.fail("bad int literal %s", x.Value)
			}
			return &ConstV{v}, nil
		case token.STRING:
			s, _ := strconv.Unquote(x.Value)
			return e.strLit(s), types.Typ[types.String]
		case token.CHAR:
			s, _ := strconv.Unquote(x.Value)
			return &ConstV{big.NewInt(int64(s[0]))}, nil
		case token.FLOAT:
			return TS.mk(x.Value, "Real"), types.Typ[types.Float64]
		}
	case *ast.Ident:
		return c.ident(x.Name, sn)
	case *ast.UnaryExpr:
		if x.Op == token.NOT {
			saved := c.underNot
			c.underNot = true
			v, t := c.expr(x.X, sn)
			c.underNot = saved
			return Not(v.(*Node)), t
		}
		v, t := c.expr(x.X, sn)
		switch x.Op {
		case token.NOT:
			return Not(v.(*Node)), t // (polarity under ! is not tracked: `also` parts are skipped there)
		case token.SUB:
			if cv, ok := v.(*ConstV); ok {
				return &ConstV{new(big.Int).Neg(cv.V)}, nil
			}
			return e.ar.Neg(v.(*Node), t), t
		case token.XOR:
			return e.ar.BitNot(v.(*Node), t), t
		case token.AND:
			// &x : only meaningful for heap objects; pass pointer through
			return v, types.NewPointer(t)
		}
	case *ast.BinaryExpr:
		return c.binary(x, sn)
	case *ast.SelectorExpr:
		return c.selector(x, sn)
	case *ast.IndexExpr:
		return c.indexExpr(x, sn)
	case *ast.CallExpr:
		return c.callExpr(x, sn)
	case *ast.StarExpr:
		v, t := c.expr(x.X, sn)
		pt := derefType(t)
		return e.readLoc(c.st, e.resolve(v, pt)), pt
	case *ast.SliceExpr:
		c.fail("slice expressions are not supported in specifications; use quantifiers")
	}
	c.fail("unsupported expression %T", ex)
	return nil, nil
}

func (c *SpecCtx) ident(name string, sn *SpecNode) (Value, types.Type) {
	e := c.e
	if sn != nil {
		if sub, ok := sn.Subs[name]; ok {
			return c.eval(sub)
		}
	}
	if v, ok := c.vars[name]; ok {
		return v.v, v.t
	}
	switch name {
	case "true":
		return tTrue, types.Typ[types.Bool]
	case "false":
		return tFalse, types.Typ[types.Bool]
	case "nil":
		return nilV{}, nil
	}
	// results
	if e.fn != nil {
		if i := e.resultIndex(name); i >= 0 {
			if i < len(e.results) {
				return e.results[i], e.resultT[i]
			}
			c.fail("result %q used where no result is available", name)
		}
		// ghost variables of the function
		if gv, ok := c.st.ghost[name]; ok {
			return gv, e.ghostT[name]
		}
		if !c.current {
			if v, ok := e.params[name]; ok {
				return v, e.paramT[name]
			}
		}
		// current value of a local / param cell (or captured variable)
		if cell, t, ok := e.cellByName(name); ok {
			return e.readLoc(c.st, e.resolve(cell, t)), t
		}
		if v, ok := e.params[name]; ok {
			return v, e.paramT[name]
		}
	}
	// package level
	if c.pkg != nil {
		if obj := c.pkg.Scope().Lookup(name); obj != nil {
			switch o := obj.(type) {
			case *types.Const:
				return c.constObj(o)
			case *types.Var:
				// package variable: heap cell
				if e.v != nil {
					if g := e.v.globalFor(o); g != nil {
						t := o.Type()
						return e.readLoc(c.st, e.resolve(e.globalPtr(g), t)), t
					}
				}
			}
		}
	}
	c.fail("unknown identifier %q", name)
	return nil, nil
}

type nilV struct{}

func (c *SpecCtx) constObj(o *types.Const) (Value, types.Type) {
	t := o.Type()
	val := o.Val()
	if b, ok := t.Underlying().(*types.Basic); ok {
		switch {
		case b.Info()&types.IsInteger != 0:
			bi, _ := new(big.Int).SetString(val.ExactString(), 10)
			if b.Info()&types.IsUntyped != 0 {
				return &ConstV{bi}, nil
			}
			return c.e.ar.lit(bi, t), t
		case b.Info()&types.IsBoolean != 0:
			if constant.BoolVal(val) {
				return tTrue, t
			}
			return tFalse, t
		case b.Info()&types.IsString != 0:
			return c.e.strLit(constant.StringVal(val)), types.Typ[types.String]
		}
	}
	c.fail("unsupported constant %s", o.Name())
	return nil, nil
}

func (e *Exec) resultIndex(name string) int {
	if e.fc != nil {
		for i, r := range e.fc.Returns {
			if r == name {
				return i
			}
		}
	}
	if e.fn == nil {
		return -1
	}
	res := e.fn.Signature.Results()
	for i := 0; i < res.Len(); i++ {
		if res.At(i).Name() == name && name != "" && name != "_" {
			return i
		}
	}
	if name == "result" && res.Len() == 1 {
		return 0
	}
	if name == "err" && res.Len() > 0 && res.At(res.Len()-1).Type().String() == "error" {
		return res.Len() - 1
	}
	if strings.HasPrefix(name, "result") {
		if k, err := strconv.Atoi(name[6:]); err == nil && k < res.Len() {
			return k
		}
	}
	return -1
}

// cellByName finds the Alloc (or free variable) for a source-level variable name.
func (e *Exec) cellByName(name string) (Value, types.Type, bool) {
	var found *ssa.Alloc
	n := 0
	for _, b := range e.fn.Blocks {
		for _, ins := range b.Instrs {
			if a, ok := ins.(*ssa.Alloc); ok && a.Comment == name {
				if _, have := e.regs[a]; have {
					found = a
					n++
				}
			}
		}
	}
	if n == 1 {
		return e.regs[found], derefType(found.Type()), true
	}
	if n > 1 && e.curLoop != nil {
		// several variables of that name: inside a loop contract, the one the loop header touches
		for _, ins := range e.curLoop.Instrs {
			var a *ssa.Alloc
			switch x := ins.(type) {
			case *ssa.UnOp:
				a, _ = x.X.(*ssa.Alloc)
			case *ssa.Store:
				a, _ = x.Addr.(*ssa.Alloc)
			}
			if a != nil && a.Comment == name {
				if _, have := e.regs[a]; have {
					return e.regs[a], derefType(a.Type()), true
				}
			}
		}
	}
	if n > 1 && e.curSitePos.IsValid() {
		// at a site: the lexically nearest declaration before the site
		var best *ssa.Alloc
		for _, b := range e.fn.Blocks {
			for _, ins := range b.Instrs {
				if a, ok := ins.(*ssa.Alloc); ok && a.Comment == name && a.Pos().IsValid() && a.Pos() <= e.curSitePos {
					if _, have := e.regs[a]; have && (best == nil || a.Pos() > best.Pos()) {
						best = a
					}
				}
			}
		}
		if best != nil {
			return e.regs[best], derefType(best.Type()), true
		}
	}
	if n > 1 {
		panic(unsupportedErr{fmt.Sprintf("spec: variable name %q is ambiguous in %s", name, e.fn.Name())})
	}
	for _, fv := range e.fn.FreeVars {
		if fv.Name() == name {
			return e.regs[fv], derefType(fv.Type()), true
		}
	}
	return nil, nil, false
}

func (c *SpecCtx) binary(x *ast.BinaryExpr, sn *SpecNode) (Value, types.Type) {
	e := c.e
	l, lt := c.expr(x.X, sn)
	// short-circuit operators
	switch x.Op {
	case token.LAND:
		r, _ := c.expr(x.Y, sn)
		return And(l.(*Node), r.(*Node)), types.Typ[types.Bool]
	case token.LOR:
		r, _ := c.expr(x.Y, sn)
		return Or(l.(*Node), r.(*Node)), types.Typ[types.Bool]
	}
	r, rt := c.expr(x.Y, sn)
	// nil comparisons
	if _, ok := r.(nilV); ok {
		return c.nilCmp(x.Op, l, lt), types.Typ[types.Bool]
	}
	if _, ok := l.(nilV); ok {
		return c.nilCmp(x.Op, r, rt), types.Typ[types.Bool]
	}
	lc, lIsC := l.(*ConstV)
	rc, rIsC := r.(*ConstV)
	if lIsC && rIsC {
		var z big.Int
		switch x.Op {
		case token.ADD:
			z.Add(lc.V, rc.V)
		case token.SUB:
			z.Sub(lc.V, rc.V)
		case token.MUL:
			z.Mul(lc.V, rc.V)
		case token.QUO:
			z.Quo(lc.V, rc.V)
		case token.SHL:
			z.Lsh(lc.V, uint(rc.V.Int64()))
		case token.SHR:
			z.Rsh(lc.V, uint(rc.V.Int64()))
		default:
			c.fail("constant op %s", x.Op)
		}
		return &ConstV{&z}, nil
	}
	t := lt
	if lIsC || (isMath(rt) && !isMath(lt)) {
		t = rt
	}
	isShift := x.Op == token.SHL || x.Op == token.SHR
	if isShift {
		t = lt
		if lIsC {
			t = types.Typ[types.Int]
		}
	}
	if t == nil {
		c.fail("cannot type %s", x.Op)
	}
	if _, ok := l.(*Node); ok || lIsC {
		if _, ok2 := r.(*Node); ok2 || rIsC {
			ln := c.coerce(l, lt, t)
			var rn *Node
			if isShift {
				st := rt
				if rIsC {
					st = types.Typ[types.Uint]
				}
				rn = c.coerce(r, rt, st)
				return e.binop(c.st, x.Op, ln, rn, t, st, token.NoPos), t
			}
			rn = c.coerce(r, rt, t)
			v := e.binopSpec(c.st, x.Op, ln, rn, t)
			switch x.Op {
			case token.EQL, token.NEQ, token.LSS, token.LEQ, token.GTR, token.GEQ:
				return v, types.Typ[types.Bool]
			}
			return v, t
		}
	}
	// composite equality
	if x.Op == token.EQL || x.Op == token.NEQ {
		var cs []*Node
		zipLeaves(l, r, func(a, b *Node) *Node { cs = append(cs, Eq(a, b)); return a })
		v := And(cs...)
		if x.Op == token.NEQ {
			v = Not(v)
		}
		return v, types.Typ[types.Bool]
	}
	c.fail("binary %s on %T, %T", x.Op, l, r)
	return nil, nil
}

func (e *Exec) binopSpec(s *State, op token.Token, a, b *Node, t types.Type) Value {
	saved := e.safety
	e.safety = false
	defer func() { e.safety = saved }()
	return e.binop(s, op, a, b, t, t, token.NoPos)
}

func (c *SpecCtx) nilCmp(op token.Token, v Value, t types.Type) *Node {
	var isNil *Node
	switch x := v.(type) {
	case *Node:
		switch x.Sort {
		case "Iface":
			isNil = Eq(x, ifaceNil())
		case RefSort:
			isNil = Eq(x, IntLit(0))
		default:
			c.fail("nil comparison on sort %s", x.Sort)
		}
	case *SliceV:
		isNil = Eq(x.Ref, IntLit(0))
	default:
		c.fail("nil comparison on %T", v)
	}
	if op == token.NEQ {
		return Not(isNil)
	}
	return isNil
}

func (c *SpecCtx) selector(x *ast.SelectorExpr, sn *SpecNode) (Value, types.Type) {
	e := c.e
	// package-qualified constant
	if id, ok := x.X.(*ast.Ident); ok && c.pkg != nil {
		if _, shadow := c.vars[id.Name]; !shadow {
			for _, imp := range c.pkg.Imports() {
				if imp.Name() == id.Name {
					if obj, ok := imp.Scope().Lookup(x.Sel.Name).(*types.Const); ok {
						return c.constObj(obj)
					}
				}
			}
		}
	}
	v, t := c.expr(x.X, sn)
	name := x.Sel.Name
	// ghost field?
	if t != nil {
		if gf := e.v.ghostField(t, name); gf != nil {
			return c.ghostFieldRead(v, t, gf)
		}
	}
	if t == nil {
		c.fail("selector on untyped value .%s", name)
	}
	// pseudo-fields of slices
	if sl, ok := v.(*SliceV); ok {
		switch name {
		case "ref":
			return sl.Ref, types.Typ[types.UnsafePointer]
		case "off":
			return sl.Off, types.Typ[types.Int]
		}
	}
	st, isPtr := structOf(t)
	if st == nil {
		c.fail("selector .%s on non-struct %s", name, t)
	}
	idx, path := findField(st, name)
	if idx < 0 {
		c.fail("no field %s in %s", name, t)
	}
	_ = path
	ft := st.Field(idx).Type()
	if isPtr {
		fp := &FieldPtr{Base: v, ST: st, Idx: idx, NT: derefType(t)}
		return e.readLoc(c.st, e.resolve(fp, ft)), ft
	}
	return v.(*StructV).F[idx], ft
}

func structOf(t types.Type) (*types.Struct, bool) {
	if p, ok := t.Underlying().(*types.Pointer); ok {
		if s, ok := p.Elem().Underlying().(*types.Struct); ok {
			return s, true
		}
		return nil, true
	}
	if s, ok := t.Underlying().(*types.Struct); ok {
		return s, false
	}
	return nil, false
}

func findField(st *types.Struct, name string) (int, []int) {
	for i := 0; i < st.NumFields(); i++ {
		if st.Field(i).Name() == name {
			return i, []int{i}
		}
	}
	return -1, nil
}

func (c *SpecCtx) indexExpr(x *ast.IndexExpr, sn *SpecNode) (Value, types.Type) {
	e := c.e
	base, bt := c.expr(x.X, sn)
	iv, it := c.expr(x.Index, sn)
	if g, ok := bt.(*ghostArrT); ok {
		idx := c.coerce(iv, it, types.Typ[types.Int])
		if it != nil && !isMath(it) {
			idx = e.toIdx(idx, it)
		}
		r := Select(base.(*Node), idx)
		if !r.bound && e.mode == ModeInt {
			c.st.assume(e.ar.inRange(r, g.elem))
		}
		return r, g.elem
	}
	switch u := bt.Underlying().(type) {
	case *types.Slice:
		sl := base.(*SliceV)
		idx := c.coerce(iv, it, types.Typ[types.Int])
		if it != nil && !isMath(it) {
			idx = e.toIdx(idx, it)
		}
		return e.loadElem(c.st, u.Elem(), sl.Ref, e.iadd(sl.Off, idx), "", u.Elem()), u.Elem()
	case *types.Array:
		av := base.(*ArrayV)
		idx := c.coerce(iv, it, types.Typ[types.Int])
		return mapLeaves(av.Elem, func(a *Node) *Node { return Select(a, idx) }), u.Elem()
	case *types.Basic:
		idx := c.coerce(iv, it, types.Typ[types.Int])
		if nativeStrings {
			return App("str.to_code", "Int", App("str.at", "String", base.(*Node), idx)), types.Typ[types.Uint8]
		}
		return Select(e.strChars(base.(*Node)), idx), types.Typ[types.Uint8]
	case *types.Map:
		var k *Node
		if sv, isStruct := iv.(*StructV); isStruct {
			k = e.keyNode(c.st, sv, u.Key())
		} else {
			k = c.coerce(iv, it, u.Key())
		}
		return e.mapGet(c.st, u, base.(*Node), k), u.Elem()
	}
	c.fail("index on %s", bt)
	return nil, nil
}

func (c *SpecCtx) callExpr(x *ast.CallExpr, sn *SpecNode) (Value, types.Type) {
	e := c.e
	if id, ok := x.Fun.(*ast.Ident); ok {
		switch id.Name {
		case "old":
			saved := c.st
			savedCur := c.current
			c.st = c.old
			c.current = false
			v, t := c.expr(x.Args[0], sn)
			c.st = saved
			c.current = savedCur
			return v, t
		case "Z":
			v, t := c.expr(x.Args[0], sn)
			return c.coerce(v, t, mathInt), mathInt
		case "len", "cap":
			v, t := c.expr(x.Args[0], sn)
			switch y := v.(type) {
			case *SliceV:
				if id.Name == "cap" {
					return y.Cap, types.Typ[types.Int]
				}
				return y.Len, types.Typ[types.Int]
			case *ArrayV:
				return e.idx(y.N), types.Typ[types.Int]
			case *Node:
				if isStrSort(y.Sort) {
					return e.strLen(y), types.Typ[types.Int]
				}
				if mt, ok := t.Underlying().(*types.Map); ok {
					return e.mapLen(c.st, mt, y), types.Typ[types.Int]
				}
			}
			c.fail("len of %T", v)
		case "dyntype":
			v, _ := c.expr(x.Args[0], sn)
			declIface()
			return App("dyn", "Int", v.(*Node)), mathInt
		case "typetag":
			// typetag(T)
			t := c.resolveType(x.Args[0])
			if t == nil {
				c.fail("typetag: unknown type")
			}
			return IntLit(int64(e.v.typeTag(t))), mathInt
		case "unbox":
			// unbox(x, T) : value of dynamic type T held in interface x
			v, _ := c.expr(x.Args[0], sn)
			t := c.resolveType(x.Args[1])
			return e.unbox(v.(*Node), t), t
		case "allocated":
			v, _ := c.expr(x.Args[0], sn)
			var r *Node
			switch y := v.(type) {
			case *Node:
				r = y
			case *SliceV:
				r = y.Ref
			}
			return App("<", "Bool", r, e.allocTerm(c.old)), types.Typ[types.Bool]
		case "fresh":
			v, _ := c.expr(x.Args[0], sn)
			var r *Node
			switch y := v.(type) {
			case *Node:
				r = y
			case *SliceV:
				r = y.Ref
			}
			return App(">=", "Bool", r, e.allocTerm(c.old)), types.Typ[types.Bool]
		case "ite":
			cnd, _ := c.expr(x.Args[0], sn)
			a, at := c.expr(x.Args[1], sn)
			b, bt := c.expr(x.Args[2], sn)
			t := at
			if t == nil {
				t = bt
			}
			if t == nil {
				t = mathInt
			}
			return Ite(cnd.(*Node), c.coerce(a, at, t), c.coerce(b, bt, t)), t
		case "bytek":
			v, t := c.expr(x.Args[0], sn)
			kv, _ := c.expr(x.Args[1], sn)
			kc, ok := kv.(*ConstV)
			if !ok {
				c.fail("bytek needs a constant byte index")
			}
			k := int(kc.V.Int64())
			n := v.(*Node)
			if e.mode == ModeBV {
				return App(fmt.Sprintf("(_ extract %d %d)", 8*k+7, 8*k), bvSort(8), n), types.Typ[types.Uint8]
			}
			w, signed, _ := intInfo(t)
			if signed {
				n = App("mod", "Int", n, BigLit(pow2(w)))
			}
			// byte decomposition by definition: v == sum_k byte_k(v)*256^k with every byte_k(v) in 0..255
			// (conservative extension; makes injectivity of big-endian layouts a linear fact)
			if !n.bound {
				c.st.assume(byteDef(n, w))
			}
			return App(byteFn(k, w), "Int", n), types.Typ[types.Uint8]
		case "b2i":
			v, _ := c.expr(x.Args[0], sn)
			return Ite(v.(*Node), e.ar.litI(1, types.Typ[types.Uint8]), e.ar.litI(0, types.Typ[types.Uint8])), types.Typ[types.Uint8]
		case "u16val", "u32val", "u64val":
			// big-endian value of the bytes a[p..p+n)
			av, at := c.expr(x.Args[0], sn)
			pv, pt := c.expr(x.Args[1], sn)
			if _, ok := at.(*ghostArrT); !ok {
				c.fail("%s needs a ghost byte array", id.Name)
			}
			p := c.coerce(pv, pt, types.Typ[types.Int])
			nb := map[string]int{"u16val": 2, "u32val": 4, "u64val": 8}[id.Name]
			rt := map[string]types.Type{"u16val": types.Typ[types.Uint16], "u32val": types.Typ[types.Uint32], "u64val": types.Typ[types.Uint64]}[id.Name]
			var acc *Node
			for i := 0; i < nb; i++ {
				b := Select(av.(*Node), e.iadd(p, e.idx(int64(i))))
				if !b.bound && e.mode == ModeInt {
					c.st.assume(e.ar.inRange(b, types.Typ[types.Uint8]))
				}
				if e.mode == ModeBV {
					if acc == nil {
						acc = b
					} else {
						acc = App("concat", bvSort(8*(i+1)), acc, b)
					}
				} else {
					t := App("*", "Int", b, BigLit(pow2(8*(nb-1-i))))
					if acc == nil {
						acc = t
					} else {
						acc = App("+", "Int", acc, t)
					}
				}
			}
			return acc, rt
		case "strContains", "strPrefix", "strSuffix":
			// strContains(s, sub) / strPrefix(s, prefix) / strSuffix(s, suffix)
			av, _ := c.expr(x.Args[0], sn)
			bv, _ := c.expr(x.Args[1], sn)
			a, b := av.(*Node), bv.(*Node)
			switch id.Name {
			case "strContains":
				return strPredicate("str.contains", "uf_strContains", a, b), types.Typ[types.Bool]
			case "strPrefix":
				return strPredicate("str.prefixof", "uf_strPrefix", b, a), types.Typ[types.Bool]
			default:
				return strPredicate("str.suffixof", "uf_strSuffix", b, a), types.Typ[types.Bool]
			}
		case "chclosed":
			cv, _ := c.expr(x.Args[0], sn)
			return e.chanClosed(c.st, cv.(*Node)), types.Typ[types.Bool]
		case "inmap":
			mv, mt := c.expr(x.Args[0], sn)
			kv, kt := c.expr(x.Args[1], sn)
			mtt, ok := mt.Underlying().(*types.Map)
			if !ok {
				c.fail("inmap: not a map")
			}
			var k *Node
			if sv, isStruct := kv.(*StructV); isStruct {
				k = e.keyNode(c.st, sv, mtt.Key())
			} else {
				k = c.coerce(kv, kt, mtt.Key())
			}
			return e.mapHas(c.st, mtt, mv.(*Node), k), types.Typ[types.Bool]
		case "inscope":
			// inscope(x): the local variable x exists at this program point
			id2, ok := x.Args[0].(*ast.Ident)
			if !ok {
				c.fail("inscope needs an identifier")
			}
			found := false
			func() {
				defer func() { recover() }()
				if cv, _, ok := e.cellByName(id2.Name); ok {
					found = true
					if lp, isLocal := cv.(*LocalPtr); isLocal {
						// a local that exists only on some of the merged paths is not in scope here
						if _, have := c.st.locals[lp.Cell]; !have {
							found = false
						}
					}
				}
			}()
			if found {
				return tTrue, types.Typ[types.Bool]
			}
			return tFalse, types.Typ[types.Bool]
		case "contents":
			// contents(b): the backing array of slice b as a ghost byte sequence (index = b.off + i)
			v, t := c.expr(x.Args[0], sn)
			sl, ok := v.(*SliceV)
			if !ok {
				c.fail("contents of a non-slice")
			}
			et := t.Underlying().(*types.Slice).Elem()
			name := heapNameArr(et, "")
			bs := e.mode.leafSort(et)
			h := e.heap(c.st, name, arraySort(RefSort, arraySort(e.mode.idxSort(), bs)))
			return Select(h, sl.Ref), &ghostArrT{elem: et}
		case "beval":
			// big-endian value of the given bytes (2, 4 or 8 of them)
			nb := len(x.Args)
			rt := map[int]types.Type{2: types.Typ[types.Uint16], 4: types.Typ[types.Uint32], 8: types.Typ[types.Uint64]}[nb]
			if rt == nil {
				c.fail("beval needs 2, 4 or 8 bytes")
			}
			var acc *Node
			for i, a := range x.Args {
				bv, bt := c.expr(a, sn)
				b := c.coerce(bv, bt, types.Typ[types.Uint8])
				if e.mode == ModeBV {
					if acc == nil {
						acc = b
					} else {
						acc = App("concat", bvSort(8*(i+1)), acc, b)
					}
				} else {
					t := App("*", "Int", b, BigLit(pow2(8*(nb-1-i))))
					if acc == nil {
						acc = t
					} else {
						acc = App("+", "Int", acc, t)
					}
				}
			}
			return acc, rt
		case "heapframe":
			return c.heapFrame(x, sn), types.Typ[types.Bool]
		case "heapsame":
			// heapsame("H:T.f") – the named heap is unchanged since old
			return c.heapSame(x, sn), types.Typ[types.Bool]
		}
		// conversion to a basic type?
		if t := c.resolveType(id); t != nil && len(x.Args) == 1 {
			v, vt := c.expr(x.Args[0], sn)
			if cv, ok := v.(*ConstV); ok {
				return e.ar.lit(cv.V, t), t
			}
			if _, _, ok := intInfo(t); ok {
				if isMath(vt) {
					c.fail("conversion from Z to %s", t)
				}
				return e.ar.Convert(v.(*Node), vt, t), t
			}
			return e.convert(c.st, v, vt, t), t
		}
		// predicate (macro)
		if p, ok := e.v.db.Preds[id.Name]; ok {
			return c.applyPred(p, x.Args, sn)
		}
		if uf, ok := e.v.db.UFuns[id.Name]; ok {
			var args []*Node
			var sorts []string
			for i, a := range x.Args {
				v, t := c.expr(a, sn)
				pt := c.resolveTypeName(uf.Params[i].Type)
				var n *Node
				if _, isG := pt.(*ghostArrT); isG {
					n = v.(*Node)
				} else {
					n = c.coerce(v, t, pt)
				}
				args = append(args, n)
				sorts = append(sorts, n.Sort)
			}
			rt := c.resolveTypeName(uf.Ret)
			rs := e.mode.leafSort(rt)
			fn := fmt.Sprintf("uf_%s_%d", uf.Name, int(e.mode))
			if nativeStrings {
				fn += "_s"
			}
			TS.DeclFun(fn, sorts, rs)
			return App(fn, rs, args...), rt
		}
		// uninterpreted / builtin spec functions
		if f, ok := specFuncs[id.Name]; ok {
			var args []*Node
			for i, a := range x.Args {
				v, t := c.expr(a, sn)
				args = append(args, c.coerce(v, t, f.argT(i)))
			}
			return f.apply(e, args), f.ret
		}
		// pure function of the package
		if c.pkg != nil {
			if fn := e.v.findFunc(c.pkg, id.Name); fn != nil {
				return c.callPure(fn, nil, x.Args, sn)
			}
		}
		c.fail("unknown function %q", id.Name)
	}
	if sel, ok := x.Fun.(*ast.SelectorExpr); ok {
		// method call on a value: pure methods only
		recv, rt := c.expr(sel.X, sn)
		if rt != nil {
			if fn := e.v.findMethod(rt, sel.Sel.Name); fn != nil {
				return c.callPure(fn, &specVar{recv, rt}, x.Args, sn)
			}
		}
		c.fail("unknown method %s", sel.Sel.Name)
	}
	c.fail("unsupported call")
	return nil, nil
}

// heapframe("A:uint8"): objects that existed at function entry are unchanged in the named heap.
func (c *SpecCtx) heapFrame(x *ast.CallExpr, sn *SpecNode) *Node {
	bl, ok := x.Args[0].(*ast.BasicLit)
	if !ok {
		c.fail("heapframe needs a string literal")
	}
	name, _ := strconv.Unquote(bl.Value)
	sortS, ok := c.e.heapSorts[name]
	if !ok {
		return tTrue
	}
	cur, old := c.e.heap(c.st, name, sortS), c.e.heap(c.e.entry, name, sortS)
	if cur == old {
		return tTrue
	}
	r := BoundVar("r!hf", arrayKeySort(sortS))
	return Forall([]*Node{r}, Implies(And(App("<=", "Bool", IntLit(0), r), App("<", "Bool", r, c.e.allocTerm(c.e.entry))), Eq(Select(cur, r), Select(old, r))))
}

func (c *SpecCtx) heapSame(x *ast.CallExpr, sn *SpecNode) *Node {
	bl, ok := x.Args[0].(*ast.BasicLit)
	if !ok {
		c.fail("heapsame needs a string literal")
	}
	name, _ := strconv.Unquote(bl.Value)
	sortS, ok := c.e.heapSorts[name]
	if !ok {
		return tTrue
	}
	return Eq(c.e.heap(c.st, name, sortS), c.e.heap(c.old, name, sortS))
}

func (c *SpecCtx) applyPred(p *Pred, args []ast.Expr, sn *SpecNode) (Value, types.Type) {
	if len(args) != len(p.Params) {
		c.fail("pred %s: wrong number of arguments", p.Name)
	}
	if c.depth > 20 {
		c.fail("pred recursion too deep")
	}
	saved := map[string]*specVar{}
	var vals []specVar
	for i, a := range args {
		v, t := c.expr(a, sn)
		pt := c.resolveTypeName(p.Params[i].Type)
		if pt == nil {
			c.fail("pred %s: unknown parameter type %s", p.Name, p.Params[i].Type)
		}
		if cv, ok := v.(*ConstV); ok {
			v = c.e.ar.lit(cv.V, pt)
		} else if isMath(pt) && !isMath(t) && t != nil {
			v = c.e.ar.Convert(v.(*Node), t, mathInt)
		} else if types.IsInterface(pt) && t != nil && !types.IsInterface(t) {
			// implicit conversion of a concrete value (e.g. *bytes.Buffer) to the interface parameter
			if n, ok := v.(*Node); ok && n.Sort != "Iface" {
				v = c.e.box(c.st, n, t)
			}
		}
		vals = append(vals, specVar{v, pt})
	}
	for i, b := range p.Params {
		if old, ok := c.vars[b.Name]; ok {
			o := old
			saved[b.Name] = &o
		} else {
			saved[b.Name] = nil
		}
		c.vars[b.Name] = vals[i]
	}
	c.depth++
	r, t := c.eval(p.Body)
	if p.Also != nil && c.hyp && !c.underNot {
		// consequence of the body (checked once as pred:<name>/also): stated too where the
		// predicate is a hypothesis, as an instantiation aid for the solver
		a, _ := c.eval(p.Also)
		r = And(r.(*Node), a.(*Node))
	}
	c.depth--
	for k, v := range saved {
		if v == nil {
			delete(c.vars, k)
		} else {
			c.vars[k] = *v
		}
	}
	return r, t
}

// callPure inlines the symbolic execution of a loop-free function of /repo in a specification.
func (c *SpecCtx) callPure(fn *ssa.Function, recv *specVar, args []ast.Expr, sn *SpecNode) (Value, types.Type) {
	e := c.e
	var vals []Value
	if recv != nil {
		vals = append(vals, recv.v)
	}
	params := fn.Params
	off := len(vals)
	for i, a := range args {
		v, t := c.expr(a, sn)
		pt := params[off+i].Type()
		if cv, ok := v.(*ConstV); ok {
			v = e.ar.lit(cv.V, pt)
		}
		_ = t
		vals = append(vals, v)
	}
	res := e.inlineCall(c.st, fn, vals, true, false)
	sig := fn.Signature.Results()
	if sig.Len() == 1 {
		return res[0], sig.At(0).Type()
	}
	return &TupleV{E: res}, sig
}

// ---------- spec-level uninterpreted functions ----------

type specFunc struct {
	args  []types.Type
	ret   types.Type
	apply func(e *Exec, args []*Node) *Node
}

func (f *specFunc) argT(i int) types.Type {
	if i < len(f.args) {
		return f.args[i]
	}
	return mathInt
}

var specFuncs = map[string]*specFunc{}

func init() {
	// bytek(v, k): byte k (0 = least significant) of the unsigned value v, as a uint8
	specFuncs["bytek"] = &specFunc{ret: types.Typ[types.Uint8]}
	specFuncs["b2i"] = &specFunc{ret: types.Typ[types.Uint8]}
}

func parserParseExpr(s string) (ast.Expr, error) {
	n, err := parseSpec(s)
	if err != nil {
		return nil, err
	}
	if n.Kind != "go" {
		return nil, fmt.Errorf("not a type")
	}
	return n.Go, nil
}

func byteFn(k, w int) string {
	fn := fmt.Sprintf("byte%d_%d", k, w)
	TS.DeclFun(fn, []string{"Int"}, "Int")
	return fn
}

// byteDef: 0 <= v < 2^w  ==>  v == sum byte_k(v)*256^k  and  0 <= byte_k(v) <= 255
func byteDef(v *Node, w int) *Node {
	var sum *Node
	var cs []*Node
	for k := 0; k < w/8; k++ {
		b := App(byteFn(k, w), "Int", v)
		cs = append(cs, App("<=", "Bool", IntLit(0), b), App("<=", "Bool", b, IntLit(255)))
		t := App("*", "Int", b, BigLit(pow2(8*k)))
		if sum == nil {
			sum = t
		} else {
			sum = App("+", "Int", sum, t)
		}
	}
	cs = append(cs, Eq(v, sum))
	rng := And(App("<=", "Bool", IntLit(0), v), App("<", "Bool", v, BigLit(pow2(w))))
	return Implies(rng, And(cs...))
}

// byteAxioms: quantified form of byteDef for the widths whose byte functions occur under a binder.
func byteAxioms(as []*Node) []*Node {
	widths := map[int]bool{}
	seen := map[int]bool{}
	var walk func(n *Node)
	walk = func(n *Node) {
		if seen[n.id] {
			return
		}
		seen[n.id] = true
		if len(n.Args) == 1 && strings.HasPrefix(n.Op, "byte") && n.Args[0].bound {
			var k, w int
			if c, _ := fmt.Sscanf(n.Op, "byte%d_%d", &k, &w); c == 2 {
				widths[w] = true
			}
		}
		for _, a := range n.Args {
			walk(a)
		}
	}
	for _, a := range as {
		walk(a)
	}
	var out []*Node
	for _, w := range []int{16, 32, 64} {
		if widths[w] {
			v := BoundVar(fmt.Sprintf("v!b%d", w), "Int")
			q := Forall([]*Node{v}, byteDef(v, w))
			q.Pattern = []*Node{App(byteFn(0, w), "Int", v)}
			out = append(out, q)
		}
	}
	return out
}
