package main

// Calls: builtins, contracts (modular), pure inlining, interface contracts, monitors.

import (
	"fmt"
	"go/token"
	"go/types"
	"sort"
	"strings"

	"golang.org/x/tools/go/ssa"
)

func (e *Exec) call(s *State, ins ssa.Instruction, c *ssa.CallCommon) Value {
	var args []Value
	for _, a := range c.Args {
		av := e.val(s, a)
		args = append(args, av)
		e.assertValInv(s, av, a.Type(), ins, "passed as an argument")
	}
	var fv Value
	if c.IsInvoke() {
		fv = e.val(s, c.Value)
	} else {
		switch c.Value.(type) {
		case *ssa.Function, *ssa.Builtin:
		default:
			fv = e.val(s, c.Value)
		}
	}
	return e.callCommon(s, ins, c, args, fv)
}

func calleeName(c *ssa.CallCommon) string {
	if c.IsInvoke() {
		return "invoke:" + typeKey(c.Value.Type()) + "." + c.Method.Name()
	}
	switch f := c.Value.(type) {
	case *ssa.Function:
		return f.String()
	case *ssa.Builtin:
		return "builtin:" + f.Name()
	case *ssa.MakeClosure:
		return f.Fn.(*ssa.Function).String()
	}
	return "dynamic"
}

func resultType(c *ssa.CallCommon) types.Type {
	sig := c.Signature()
	r := sig.Results()
	switch r.Len() {
	case 0:
		return nil
	case 1:
		return r.At(0).Type()
	}
	return r
}

func (e *Exec) callCommon(s *State, ins ssa.Instruction, c *ssa.CallCommon, args []Value, fv Value) Value {
	pos := ins.Pos()
	// builtins
	if b, ok := c.Value.(*ssa.Builtin); ok && !c.IsInvoke() {
		return e.builtin(s, ins, b, c, args)
	}
	if c.IsInvoke() {
		return e.invoke(s, ins, c, args, fv)
	}
	var callee *ssa.Function
	switch f := c.Value.(type) {
	case *ssa.Function:
		callee = f
	case *ssa.MakeClosure:
		callee = f.Fn.(*ssa.Function)
	default:
		// closure value held in a variable: resolve if it is a known closure
		if cl := e.closureFor(fv); cl != nil {
			callee = cl.Fn
			args = append(append([]Value(nil), args...), cl.Bindings...)
			return e.callFunc(s, ins, callee, args, pos, true)
		}
	}
	if callee == nil {
		// a closure of an enclosing function called through the variable it was assigned to
		// (`nextTask := func…` in the parent, `nextTask(ctx)` in a nested literal): use its contract
		if fn := e.closureByVarName(c.Value); fn != nil {
			if fc := e.v.db.Funcs[e.v.contractKeyFor(fn)]; fc != nil && !fc.Pure && !fc.Inline {
				// preconditions of a closure speak about its frozen captures and are proved where the
				// closure is created; its captured variables are not nameable at this call site
				e.byNameCall++
				defer func() { e.byNameCall-- }()
				return e.applyContract(s, ins, fc, fn.Signature, nil, args, pos)
			}
		}
		e.bumpAlloc(s)
		e.logAbs("call through a function value: assumed not to touch state under contract")
		e.v.noteTrusted("function values / callbacks are assumed not to touch state under contract")
		if t := resultType(c); t != nil {
			return e.freshValue(s, "dyncall", t)
		}
		return nil
	}
	if mc, ok := c.Value.(*ssa.MakeClosure); ok {
		for _, b := range mc.Bindings {
			args = append(args, e.val(s, b))
		}
		return e.callFunc(s, ins, callee, args, pos, true)
	}
	return e.callFunc(s, ins, callee, args, pos, false)
}

type ClosureV struct {
	Fn       *ssa.Function
	Bindings []Value
}

func (e *Exec) makeClosure(s *State, x *ssa.MakeClosure) Value {
	cl := &ClosureV{Fn: x.Fn.(*ssa.Function)}
	for _, b := range x.Bindings {
		cl.Bindings = append(cl.Bindings, e.val(s, b))
		if a, ok := b.(*ssa.Alloc); ok {
			// from here on the closure (possibly run by other code or another goroutine) can reach the cell;
			// a closure that only ever reads it leaves this activation the only writer
			if bi := indexOfBinding(x, b); bi >= 0 && freeVarReadOnly(cl.Fn, bi, 0) {
				continue
			}
			var keep []privCell
			for _, pc := range s.priv {
				if pc.alloc != a {
					keep = append(keep, pc)
				}
			}
			s.priv = keep
		}
	}
	e.closureRequires(s, x, cl.Fn)
	n := TS.Fresh("closure_"+cl.Fn.Name(), RefSort)
	s.assume(App("<", "Bool", n, IntLit(0))) // function values live outside the object heap
	if e.closures == nil {
		e.closures = map[*Node]*ClosureV{}
	}
	e.closures[n] = cl
	return n
}

func (e *Exec) closureFor(v Value) *ClosureV {
	n, ok := v.(*Node)
	if !ok || e.closures == nil {
		return nil
	}
	return e.closures[n]
}

func (e *Exec) callFunc(s *State, ins ssa.Instruction, callee *ssa.Function, args []Value, pos token.Pos, withBindings bool) Value {
	full := callee.String()
	name := e.v.contractKeyFor(callee)
	// mutex operations
	if mk := mutexOp(full); mk != "" {
		e.mutexCall(s, ins, mk, args[0])
		return nil
	}
	if r, handled := e.libCall(s, ins, callee, full, args); handled {
		return r
	}
	fc := e.v.db.Funcs[name]
	if fc == nil {
		fc = e.v.db.Funcs[full] // extern
	}
	if fc != nil && (fc.Pure || fc.Inline) && callee.Blocks != nil {
		res := e.inlineCall(s, callee, args, fc.Pure)
		return packResults(res)
	}
	if fc != nil {
		return e.applyContract(s, ins, fc, callee.Signature, callee, args, pos)
	}
	if e.v.db.NoEffect[full] || e.v.db.NoEffect[shortFuncName(full)] || e.v.noEffectPkg(callee) {
		e.bumpAlloc(s)
		if t := sigResult(callee.Signature); t != nil {
			return e.resultFresh(s, shortFuncName(full), t)
		}
		return nil
	}
	// a callee without contract that takes a mutex this thread already holds: sync.Mutex and
	// sync.RWMutex are not re-entrant (a second RLock deadlocks as soon as a writer is waiting)
	if len(s.held) > 0 && callee.Blocks != nil {
		e.reentrantThroughCall(s, callee, pos)
	}
	// unknown callee: havoc everything
	e.logAbs("call to %s without contract: all heaps havocked, results unconstrained", shortFuncName(full))
	e.havocAllHeaps(s)
	e.bumpAlloc(s)
	if t := sigResult(callee.Signature); t != nil {
		return e.freshValue(s, "call_"+callee.Name(), t)
	}
	return nil
}

// bumpAlloc: a call may allocate; references handed back may be at or above the caller's counter.
func (e *Exec) bumpAlloc(s *State) {
	nb := TS.Fresh("allocbase", "Int")
	s.assume(App(">=", "Bool", nb, e.allocTerm(s)))
	allocLower[nb] = struct {
		prev *Node
		n    int
	}{s.allocBase, s.allocN}
	s.allocBase, s.allocN = nb, 0
}

func (e *Exec) resultFresh(s *State, name string, t types.Type) Value {
	return e.freshValue(s, "r_"+name, t)
}

func shortFuncName(full string) string {
	// "github.com/a/b/pkg.Func" → "pkg.Func";  "(*github.com/a/b/pkg.T).M" → "(*pkg.T).M"
	i := strings.LastIndex(full, "/")
	if i < 0 {
		return full
	}
	prefix := ""
	if strings.HasPrefix(full, "(*") {
		prefix = "(*"
	} else if strings.HasPrefix(full, "(") {
		prefix = "("
	}
	return prefix + full[i+1:]
}

func sigResult(sig *types.Signature) types.Type {
	r := sig.Results()
	switch r.Len() {
	case 0:
		return nil
	case 1:
		return r.At(0).Type()
	}
	return r
}

func packResults(res []Value) Value {
	switch len(res) {
	case 0:
		return nil
	case 1:
		return res[0]
	}
	return &TupleV{E: res}
}

func (e *Exec) havocAllHeaps(s *State) {
	var ks []string
	for k := range e.heapSorts {
		ks = append(ks, k)
	}
	sort.Strings(ks)
	// cells private to this activation keep their contents
	type saved struct {
		name string
		ref  *Node
		val  *Node
	}
	var keep []saved
	for _, pc := range s.priv {
		t := derefType(pc.alloc.Type())
		if _, isArr := t.Underlying().(*types.Array); isArr {
			continue
		}
		for _, li := range e.mode.leaves(t) {
			name := heapNameObj(t, li.Path)
			if h, ok := s.heaps[name]; ok {
				keep = append(keep, saved{name, pc.ref, Select(h, pc.ref)})
			}
		}
	}
	for _, k := range ks {
		if e.v.immutableHeap(k) {
			continue
		}
		e.setHeap(s, k, TS.Fresh("havoc_"+k, e.heapSorts[k]))
	}
	for _, sv := range keep {
		if h, ok := s.heaps[sv.name]; ok {
			s.heaps[sv.name] = Store(h, sv.ref, sv.val)
		}
	}
	epochCounter++
	s.epoch = epochCounter
	e.havocAll = true
}

// inlineCall symbolically executes callee on args in state s (no loops allowed unless they have
// contracts of their own), returning result values. Obligations inside are suppressed.
func (e *Exec) inlineCall(s *State, callee *ssa.Function, args []Value, pure bool, keepPC ...bool) []Value {
	if e.inlineDepth > 8 {
		e.unsupported("inline depth exceeded at %s", callee.Name())
	}
	sub := newExec(e.v, callee, nil, e.mode)
	sub.funcKey = e.funcKey + "/inline:" + callee.Name()
	sub.heapSorts = e.heapSorts
	sub.inlineDepth = e.inlineDepth + 1
	sub.quiet = 1
	sub.entry = e.entry
	sub.absLog = e.absLog
	name := e.v.contractKeyFor(callee)
	if fc := e.v.db.Funcs[name]; fc != nil {
		sub.fc = fc
	}
	for i, p := range callee.Params {
		sub.regs[p] = args[i]
		sub.params[p.Name()] = args[i]
		sub.paramT[p.Name()] = p.Type()
	}
	for i, fvv := range callee.FreeVars {
		sub.regs[fvv] = args[len(callee.Params)+i]
	}
	// run on the caller's state (shares heaps); path conditions inside the callee are kept relative
	// to its entry so that the merged result does not drag the caller's whole path condition along
	st := s.clone()
	st.defers = nil
	st.pc = tTrue
	ret := sub.run(st)
	if ret == nil {
		e.unsupported("inlined function %s does not return", callee.Name())
	}
	if len(keepPC) > 0 && !keepPC[0] {
		// specification context: nothing leaks
	} else if pure {
		// pure: state unchanged except facts learned inside
		s.pc = And(s.pc, ret.pc)
		s.allocBase, s.allocN = ret.allocBase, ret.allocN
	} else {
		s.pc = And(s.pc, ret.pc)
		s.heaps = ret.heaps
		s.ghost = ret.ghost
		s.allocBase, s.allocN = ret.allocBase, ret.allocN
		if e.written != nil {
			for k := range sub.written {
				e.written[k] = true
			}
		}
	}
	if e.absLog == nil {
		e.absLog = sub.absLog
	}
	return sub.results
}

// applyContract: assert requires, havoc modifies, assume ensures.
func (e *Exec) applyContract(s *State, ins ssa.Instruction, fc *FuncContract, sig *types.Signature, callee *ssa.Function, args []Value, pos token.Pos) Value {
	vars := map[string]specVar{}
	names := e.v.paramNames(fc, sig, callee)
	k := 0
	if sig.Recv() != nil {
		if len(names) > 0 {
			vars[names[0]] = specVar{args[0], sig.Recv().Type()}
		}
		k = 1
	}
	for i := 0; i < sig.Params().Len(); i++ {
		if k+i < len(names) && k+i < len(args) {
			vars[names[k+i]] = specVar{args[k+i], sig.Params().At(i).Type()}
		}
	}
	if callee != nil {
		for i, fvv := range callee.FreeVars {
			idx := len(callee.Params) + i
			if idx < len(args) {
				vars["&"+fvv.Name()] = specVar{args[idx], fvv.Type()}
				// the captured variable itself, by name, with its value at the call
				func() {
					defer func() { recover() }()
					t := derefType(fvv.Type())
					vars[fvv.Name()] = specVar{e.readLoc(s, e.resolve(args[idx], t)), t}
				}()
			}
		}
	}
	cname := shortFuncName(fc.Key)
	sub := e.calleeCtxExec(fc)
	// the callee's ghost variables: some value exists for which its postconditions hold
	for _, g := range fc.Ghosts {
		f := strings.Fields(g)
		if len(f) == 3 && f[0] == "var" {
			func() {
				defer func() { recover() }()
				ctx := &SpecCtx{e: e, st: s, old: s, vars: map[string]specVar{}, pkg: sub.pkg}
				t := ctx.resolveTypeName(f[2])
				if _, isArr := t.(*ghostArrT); !isArr {
					vars[f[1]] = specVar{e.freshValue(s, "gv_"+f[1], t), t}
				}
			}()
		}
	}
	if e.quiet == 0 {
		e.counters["call:"+cname]++
	}
	ord := e.counters["call:"+cname]
	if fc.Region && sig.Recv() != nil {
		// the callee is a Lock…Unlock region: other threads may have run before it takes the lock
		if pt, ok := sig.Recv().Type().Underlying().(*types.Pointer); ok {
			if mon := e.v.monitorForType(pt.Elem()); mon != nil {
				if obj, ok := args[0].(*Node); ok {
					e.havocGuarded(s, mon, pt.Elem(), obj)
					for _, inv := range mon.Invariants {
						s.assume(e.asHyp(func() *Node { return e.evalMonitorInv(mon, inv, pt.Elem(), obj, s) }))
					}
					defer func() {
						for _, inv := range mon.Invariants {
							s.assume(e.asHyp(func() *Node { return e.evalMonitorInv(mon, inv, pt.Elem(), obj, s) }))
						}
					}()
				}
			}
		}
	}
	if fc.Holds != "" {
		obj, mon := e.holdsTarget(fc, s, vars, &sub)
		key := mon.TypeName + "." + mon.MutexField
		var alts []*Node
		for _, h := range s.held {
			if h.Key == key {
				alts = append(alts, Eq(h.Obj, obj))
			}
		}
		if e.quiet == 0 {
			e.obls = append(e.obls, &Obligation{Name: fmt.Sprintf("%s/call:%s#%d/holds", e.funcKey, cname, ord), Kind: "monitor",
				Pos: pos, Goal: Or(alts...), Hyp: s.pc, Func: e.funcKey, Text: "called with " + fc.Holds + " held", Props: unionProps(orProps(fc.Props, e.props)), Mode: e.mode, exec: e})
		}
	}
	pre := s.clone()
	for i, r := range fc.Requires {
		if e.byNameCall > 0 {
			break
		}
		g := sub.evalWith(e, r, s, s, vars)
		if e.quiet == 0 {
			e.obls = append(e.obls, &Obligation{Name: fmt.Sprintf("%s/call:%s#%d/requires#%d", e.funcKey, cname, ord, i+1), Kind: "requires-at-call",
				Pos: pos, Goal: g, Hyp: s.pc, Func: e.funcKey, Text: r.Text, Props: requiresProps(r.Props, fc.Props, e.props), Mode: e.mode, exec: e})
		}
		s.assume(g)
	}
	// havoc modifies
	if fc.ModAll {
		e.havocAllHeaps(s)
	} else {
		for _, m := range fc.Modifies {
			e.havocTarget(s, pre, m, vars, fc)
		}
	}
	// the callee may have allocated: objects it returns may be new
	e.bumpAlloc(s)
	// results
	var res []Value
	var resT []types.Type
	rs := sig.Results()
	for i := 0; i < rs.Len(); i++ {
		v := e.freshValue(s, "r_"+cname, rs.At(i).Type())
		res = append(res, v)
		resT = append(resT, rs.At(i).Type())
		rn := rs.At(i).Name()
		if i < len(fc.Returns) {
			rn = fc.Returns[i]
		}
		if rn == "" || rn == "_" {
			rn = fmt.Sprintf("result%d", i)
			if rs.Len() == 1 {
				vars["result"] = specVar{v, rs.At(i).Type()}
			}
		}
		vars[rn] = specVar{v, rs.At(i).Type()}
		if i == rs.Len()-1 && rs.At(i).Type().String() == "error" {
			if _, have := vars["err"]; !have {
				vars["err"] = specVar{v, rs.At(i).Type()}
			}
		}
	}
	for _, en := range fc.Ensures {
		func() {
			defer func() {
				if r := recover(); r != nil {
					msg := fmt.Sprint(r)
					if u, ok := r.(unsupportedErr); ok {
						msg = u.msg
					}
					if e.mode != fc.Mode {
						// a postcondition written for the other arithmetic mode: dropping an assumption is sound
						e.logAbs("postcondition of %s not expressible in this arithmetic mode, dropped: %s", cname, trunc(en.Text, 60))
						return
					}
					panic(unsupportedErr{"postcondition of " + cname + ": " + msg})
				}
			}()
			s.assume(e.asHyp(func() *Node { return sub.evalWith(e, en, s, pre, vars) }))
		}()
	}
	return packResults(res)
}

// calleeCtxExec gives an Exec-like evaluation context for the callee's package (for name resolution).
type calleeCtx struct{ pkg *types.Package }

func (e *Exec) calleeCtxExec(fc *FuncContract) calleeCtx {
	return calleeCtx{e.v.pkgByPath(fc.PkgPath)}
}

func (cc calleeCtx) evalWith(e *Exec, c *Clause, st, old *State, vars map[string]specVar) *Node {
	ctx := &SpecCtx{e: e, st: st, old: old, vars: map[string]specVar{}, pkg: cc.pkg, hyp: e.hypMode}
	for k, v := range vars {
		ctx.vars[k] = v
	}
	ctx.callArgs = true
	// hide the caller's function-scoped names: evaluate with a shadow Exec that has no fn-level names
	savedFn, savedParams, savedRes := e.fn, e.params, e.results
	e.fn, e.params, e.results = nil, map[string]Value{}, nil
	defer func() { e.fn, e.params, e.results = savedFn, savedParams, savedRes }()
	oldPC := old.pc
	v, _ := ctx.eval(c.Expr)
	carryOldFacts(st, old, oldPC)
	return v.(*Node)
}

// havocTarget: "s.nextChunk" (field of object), "buf[*]" (contents of slice), "H:<heap>" (whole heap),
// "(*T).f" (field heap of all objects), ghost fields "s.out".
func (e *Exec) havocTarget(s, pre *State, m string, vars map[string]specVar, fc *FuncContract) {
	cc := e.calleeCtxExec(fc)
	switch {
	case strings.HasPrefix(m, "H:") || strings.HasPrefix(m, "A:") || strings.HasPrefix(m, "G:") || strings.HasPrefix(m, "M:"):
		sortS, ok := e.heapSorts[m]
		if !ok && (strings.HasPrefix(m, "M:") || (strings.HasPrefix(m, "A:") && e.sortForHeapName(m) == "")) {
			// a whole map type: every heap of the family
			e.havocFamily(s, m+".", "mod_")
			return
		}
		if !ok {
			// not touched yet in this activation: it still has to be havocked, otherwise later reads
			// would see the pre-call contents
			sortS = e.sortForHeapName(m)
			if sortS == "" {
				e.unsupported("modifies %s: cannot determine the sort of this heap", m)
			}
			e.heap(s, m, sortS)
		}
		e.setHeap(s, m, TS.Fresh("mod_"+m, sortS))
	case strings.HasSuffix(m, "[*]"):
		base := strings.TrimSuffix(m, "[*]")
		n, err := parseSpec(base)
		if err != nil {
			e.unsupported("bad modifies target %q", m)
		}
		v, t := e.evalNodeWith(cc, n, pre, pre, vars)
		sl, ok := v.(*SliceV)
		if !ok {
			e.unsupported("modifies %q: not a slice", m)
		}
		et := t.Underlying().(*types.Slice).Elem()
		for _, li := range e.mode.leaves(et) {
			name := heapNameArr(et, li.Path)
			asort := arraySort(e.mode.idxSort(), li.Sort)
			h := e.heap(s, name, arraySort(RefSort, asort))
			// only the window [off, off+len) may change
			na := TS.Fresh("mod_"+name, asort)
			oldA := Select(h, sl.Ref)
			i := BoundVar("i!m", e.mode.idxSort())
			s.assume(e.hypForall(i, Implies(Or(e.ilt(i, sl.Off), e.ile(e.iadd(sl.Off, sl.Len), i)), Eq(Select(na, i), Select(oldA, i)))))
			e.setHeap(s, name, Store(h, sl.Ref, na), sl.Ref)
		}
	default:
		// x.f  (object field or ghost field)
		i := strings.LastIndex(m, ".")
		if i < 0 {
			e.unsupported("bad modifies target %q", m)
		}
		if strings.HasPrefix(m, "(*") {
			// (*T).f : whole field heap
			tn := m[2:strings.Index(m, ")")]
			fld := m[i+1:]
			t := e.v.lookupType(fc.PkgPath, tn)
			if t == nil {
				e.unsupported("modifies: unknown type %s", tn)
			}
			e.havocFieldHeap(s, t, fld)
			return
		}
		n, err := parseSpec(m[:i])
		if err != nil {
			e.unsupported("bad modifies target %q", m)
		}
		fld := m[i+1:]
		v, t := e.evalNodeWith(cc, n, pre, pre, vars)
		if gf := e.v.ghostField(t, fld); gf != nil {
			name := ghostHeapName(gf)
			sortS := e.ghostHeapSort(gf, "Iface")
			h := e.heap(s, name, sortS)
			on := e.ghostOwner(s, v, t)
			e.setHeap(s, name, Store(h, on, TS.Fresh("mod_"+name, arrayValSort(sortS))), on)
			return
		}
		st, isPtr := structOf(t)
		if st == nil || !isPtr {
			e.unsupported("modifies %q: not a field of a heap object", m)
		}
		idx, _ := findField(st, fld)
		if idx < 0 {
			e.unsupported("modifies %q: no such field", m)
		}
		fp := &FieldPtr{Base: v, ST: st, Idx: idx, NT: derefType(t)}
		loc := e.resolve(fp, st.Field(idx).Type())
		e.writeLocQuiet(s, loc, e.freshValue(s, "mod_"+fld, st.Field(idx).Type()))
	}
}

func (e *Exec) writeLocQuiet(s *State, loc Loc, v Value) {
	e.noGuard++
	e.writeLoc(s, loc, v)
	e.noGuard--
}

func (e *Exec) havocFieldHeap(s *State, t types.Type, fld string) {
	st, _ := t.Underlying().(*types.Struct)
	if st == nil {
		e.unsupported("havocFieldHeap: %s is not a struct", t)
	}
	idx, _ := findField(st, fld)
	if idx < 0 {
		e.unsupported("no field %s in %s", fld, t)
	}
	for _, li := range e.mode.leaves(st.Field(idx).Type()) {
		name := heapNameObj(t, "."+fld+li.Path)
		sortS := arraySort(RefSort, li.Sort)
		e.heap(s, name, sortS)
		e.setHeap(s, name, TS.Fresh("mod_"+name, sortS))
	}
}

func (e *Exec) evalNodeWith(cc calleeCtx, n *SpecNode, st, old *State, vars map[string]specVar) (Value, types.Type) {
	ctx := &SpecCtx{e: e, st: st, old: old, vars: map[string]specVar{}, pkg: cc.pkg}
	for k, v := range vars {
		ctx.vars[k] = v
	}
	savedFn, savedParams, savedRes := e.fn, e.params, e.results
	e.fn, e.params, e.results = nil, map[string]Value{}, nil
	defer func() { e.fn, e.params, e.results = savedFn, savedParams, savedRes }()
	return ctx.eval(n)
}

// ---------- builtins ----------

func (e *Exec) builtin(s *State, ins ssa.Instruction, b *ssa.Builtin, c *ssa.CallCommon, args []Value) Value {
	switch b.Name() {
	case "len", "cap":
		switch x := args[0].(type) {
		case *SliceV:
			if b.Name() == "cap" {
				return x.Cap
			}
			return x.Len
		case *ArrayV:
			return e.idx(x.N)
		case *Node:
			if isStrSort(x.Sort) {
				l := e.strLen(x)
				if e.mode == ModeInt {
					s.assume(And(App(">=", "Bool", l, IntLit(0)), App("<=", "Bool", l, IntLit(maxLen))))
				}
				return l
			}
			if mt, ok := c.Args[0].Type().Underlying().(*types.Map); ok {
				return e.mapLen(s, mt, x)
			}
			if _, ok := c.Args[0].Type().Underlying().(*types.Chan); ok {
				e.logAbs("len/cap of channel: unconstrained non-negative")
				v := e.freshValue(s, "chanlen", types.Typ[types.Int]).(*Node)
				s.assume(e.ile(e.idx(0), v))
				return v
			}
		}
		e.unsupported("len of %T", args[0])
	case "append":
		return e.appendBuiltin(s, ins, c, args)
	case "copy":
		return e.copyBuiltin(s, c, args)
	case "delete":
		mt := c.Args[0].Type().Underlying().(*types.Map)
		e.mapDelete(s, mt, args[0].(*Node), args[1])
		return nil
	case "close":
		e.closeChan(s, ins, args[0])
		return nil
	case "print", "println":
		return nil
	case "min", "max":
		t := c.Args[0].Type()
		r := args[0].(*Node)
		for _, a := range args[1:] {
			an := a.(*Node)
			var c2 *Node
			if b.Name() == "min" {
				c2 = e.ar.Cmp(token.LSS, an, r, t)
			} else {
				c2 = e.ar.Cmp(token.GTR, an, r, t)
			}
			r = Ite(c2, an, r)
		}
		return r
	case "recover":
		return ifaceNil()
	case "ssa:wrapnilchk":
		return args[0]
	case "ssa:deferstack":
		return &StructV{}
	}
	e.unsupported("builtin %s", b.Name())
	return nil
}

// Channels: the only state modelled is "has been closed" (ghost heap keyed by the channel reference).
// Sending on a closed channel and closing a closed or nil channel panic: safety obligations.
const chanClosedHeap = "G:chan.closed"

var chanClosedSort = arraySort(RefSort, "Bool")

func (e *Exec) chanClosed(s *State, ch *Node) *Node {
	return Select(e.heap(s, chanClosedHeap, chanClosedSort), ch)
}

func (e *Exec) closeChan(s *State, ins ssa.Instruction, ch Value) {
	c := ch.(*Node)
	if e.safety {
		e.addObl(s, e.oblName("safety/chan-close"), "safety", And(Not(Eq(c, IntLit(0))), Not(e.chanClosed(s, c))), ins.Pos(), "close of a nil or already closed channel")
	}
	h := e.heap(s, chanClosedHeap, chanClosedSort)
	e.setHeap(s, chanClosedHeap, Store(h, c, tTrue), c)
}

func (e *Exec) sendSafety(s *State, ch Value, pos token.Pos) {
	if c, ok := ch.(*Node); ok && e.safety {
		e.addObl(s, e.oblName("safety/chan-send"), "safety", Not(e.chanClosed(s, c)), pos, "send on a closed channel")
	}
}

func (e *Exec) copyBuiltin(s *State, c *ssa.CallCommon, args []Value) Value {
	dst := args[0].(*SliceV)
	et := c.Args[0].Type().Underlying().(*types.Slice).Elem()
	var srcLen *Node
	var srcAt func(li leafInfo, i *Node) *Node
	switch src := args[1].(type) {
	case *SliceV:
		srcLen = src.Len
		srcAt = func(li leafInfo, i *Node) *Node {
			name := heapNameArr(et, li.Path)
			h := e.heap(s, name, arraySort(RefSort, arraySort(e.mode.idxSort(), li.Sort)))
			return Select(Select(h, src.Ref), e.iadd(src.Off, i))
		}
	case *Node: // string
		srcLen = e.strLen(src)
		srcAt = func(li leafInfo, i *Node) *Node { return Select(e.strChars(src), i) }
	}
	n := Ite(e.ilt(dst.Len, srcLen), dst.Len, srcLen)
	// read all sources first (aliasing-safe: memmove semantics)
	type upd struct {
		name string
		na   *Node
		h    *Node
	}
	var upds []upd
	for _, li := range e.mode.leaves(et) {
		name := heapNameArr(et, li.Path)
		asort := arraySort(e.mode.idxSort(), li.Sort)
		h := e.heap(s, name, arraySort(RefSort, asort))
		oldA := Select(h, dst.Ref)
		na := TS.Fresh("copy_"+name, asort)
		i := BoundVar("i!c", e.mode.idxSort())
		inWin := And(e.ile(dst.Off, i), e.ilt(i, e.iadd(dst.Off, n)))
		s.assume(e.hypForall(i, Eq(Select(na, i), Ite(inWin, srcAt(li, e.isub(i, dst.Off)), Select(oldA, i)))))
		upds = append(upds, upd{name, na, h})
	}
	for _, u := range upds {
		e.setHeap(s, u.name, Store(e.heap(s, u.name, u.h.Sort), dst.Ref, u.na), dst.Ref)
	}
	return n
}

func (e *Exec) appendBuiltin(s *State, ins ssa.Instruction, c *ssa.CallCommon, args []Value) Value {
	sl := args[0].(*SliceV)
	et := c.Args[0].Type().Underlying().(*types.Slice).Elem()
	// appended part
	var addLen *Node
	var addAt func(li leafInfo, i *Node) *Node
	switch a := args[1].(type) {
	case *SliceV:
		addLen = a.Len
		addAt = func(li leafInfo, i *Node) *Node {
			name := heapNameArr(et, li.Path)
			h := e.heap(s, name, arraySort(RefSort, arraySort(e.mode.idxSort(), li.Sort)))
			return Select(Select(h, a.Ref), e.iadd(a.Off, i))
		}
	case *Node: // string appended to []byte
		addLen = e.strLen(a)
		addAt = func(li leafInfo, i *Node) *Node { return Select(e.strChars(a), i) }
	default:
		e.unsupported("append of %T", args[1])
	}
	newLen := e.iadd(sl.Len, addLen)
	fits := e.ile(newLen, sl.Cap)
	// fresh backing for the growing case
	fresh := e.newRef(s)
	newCap := e.freshValue(s, "appendcap", types.Typ[types.Int]).(*Node)
	s.assume(And(e.ile(newLen, newCap), e.ile(newCap, e.idxBig(maxLen))))
	if e.mode == ModeInt {
		// Go's growth policy never more than doubles (plus size-class rounding): trusted runtime fact
		s.assume(App("<=", "Bool", newCap, App("+", "Int", App("*", "Int", IntLit(2), newLen), IntLit(64))))
		e.v.noteTrusted("runtime: append grows a slice to at most 2*len+64 elements")
		if e.fc != nil && e.fc.AllocBound != nil {
			grow := s.clone()
			grow.assume(Not(fits))
			e.allocSite(grow, ins, newCap, et)
		}
	}
	resRef := Ite(fits, sl.Ref, fresh)
	resOff := Ite(fits, sl.Off, e.idx(0))
	resCap := Ite(fits, sl.Cap, newCap)
	for _, li := range e.mode.leaves(et) {
		name := heapNameArr(et, li.Path)
		asort := arraySort(e.mode.idxSort(), li.Sort)
		h := e.heap(s, name, arraySort(RefSort, asort))
		oldA := Select(h, sl.Ref)
		// in place: positions off+len .. off+len+addLen get the new elements
		na := TS.Fresh("app_"+name, asort)
		i := BoundVar("i!a", e.mode.idxSort())
		base := e.iadd(sl.Off, sl.Len)
		inNew := And(e.ile(base, i), e.ilt(i, e.iadd(base, addLen)))
		s.assume(e.hypForall(i, Eq(Select(na, i), Ite(inNew, addAt(li, e.isub(i, base)), Select(oldA, i)))))
		// fresh: copy of old window followed by new elements
		nf := TS.Fresh("appf_"+name, asort)
		j := BoundVar("j!a", e.mode.idxSort())
		inOld := And(e.ile(e.idx(0), j), e.ilt(j, sl.Len))
		inAdd := And(e.ile(sl.Len, j), e.ilt(j, newLen))
		s.assume(e.hypForall(j, And(
			Implies(inOld, Eq(Select(nf, j), Select(oldA, e.iadd(sl.Off, j)))),
			Implies(inAdd, Eq(Select(nf, j), addAt(li, e.isub(j, sl.Len)))))))
		h2 := Ite(fits, Store(h, sl.Ref, na), Store(h, fresh, nf))
		e.setHeap(s, name, h2, sl.Ref, fresh)
	}
	return &SliceV{Ref: resRef, Off: resOff, Len: newLen, Cap: resCap}
}

// ---------- interfaces ----------

func (e *Exec) makeInterface(s *State, x *ssa.MakeInterface) Value {
	declIface()
	t := x.X.Type()
	v := e.val(s, x.X)
	return e.box(s, v, t)
}

// box: the interface value holding v of dynamic type t. Boxing is a function of (t, v): converting
// the same pointer twice gives the same interface value (and hence the same ghost state).
func (e *Exec) box(s *State, v Value, t types.Type) *Node {
	declIface()
	var i *Node
	func() {
		defer func() {
			if recover() != nil {
				i = nil
			}
		}()
		ls := leavesOf(v)
		if len(ls) == 0 || len(ls) > 12 {
			return
		}
		var sorts []string
		for _, l := range ls {
			sorts = append(sorts, l.Sort)
		}
		fn := fmt.Sprintf("box_%s_%d", sanitize(typeKey(t)), int(e.mode))
		TS.DeclFun(fn, sorts, "Iface")
		i = App(fn, "Iface", ls...)
	}()
	if i == nil {
		i = TS.Fresh("iface", "Iface") // interior pointers and other non-flattenable payloads: identity only
		s.assume(Eq(App("dyn", "Int", i), IntLit(int64(e.v.typeTag(t)))))
		s.assume(Not(Eq(i, ifaceNil())))
		return i
	}
	if i.bound {
		// under a quantifier: the facts cannot go to the path condition for this instance; state them
		// once for every argument of this boxing function
		var bvs []*Node
		for k, l := range leavesOf(v) {
			bvs = append(bvs, BoundVar(fmt.Sprintf("bx%d!q", k), l.Sort))
		}
		gi := App(i.Op, "Iface", bvs...)
		var geqs []*Node
		zipLeaves(e.unbox(gi, t), e.mode.build(t, func() func(li leafInfo) *Node {
			k := 0
			return func(li leafInfo) *Node { k++; return bvs[k-1] }
		}()), func(a, b *Node) *Node { geqs = append(geqs, Eq(a, b)); return a })
		body := And(append([]*Node{Eq(App("dyn", "Int", gi), IntLit(int64(e.v.typeTag(t)))), Not(Eq(gi, ifaceNil()))}, geqs...)...)
		s.assume(Forall(bvs, body))
		return i
	}
	s.assume(Eq(App("dyn", "Int", i), IntLit(int64(e.v.typeTag(t)))))
	s.assume(Not(Eq(i, ifaceNil())))
	bx := e.unbox(i, t)
	var eqs []*Node
	zipLeaves(bx, v, func(a, b *Node) *Node { eqs = append(eqs, Eq(a, b)); return a })
	s.assume(And(eqs...))
	return i
}

// unbox: the value of dynamic type t held by interface value i.
func (e *Exec) unbox(i *Node, t types.Type) Value {
	tk := sanitize(typeKey(t))
	return e.mode.build(t, func(li leafInfo) *Node {
		fn := fmt.Sprintf("unbox_%s%s_%d", tk, sanitize(li.Path), int(e.mode))
		TS.DeclFun(fn, []string{"Iface"}, li.Sort)
		return App(fn, li.Sort, i)
	})
}

func (e *Exec) typeAssert(s *State, x *ssa.TypeAssert) Value {
	declIface()
	i := e.val(s, x.X).(*Node)
	if types.IsInterface(x.AssertedType) {
		// interface-to-interface
		fn := "implements_" + sanitize(typeKey(x.AssertedType))
		TS.DeclFun(fn, []string{"Int"}, "Bool")
		ok := And(Not(Eq(i, ifaceNil())), App(fn, "Bool", App("dyn", "Int", i)))
		if x.CommaOk {
			return &TupleV{E: []Value{Ite(ok, i, ifaceNil()), ok}}
		}
		if e.safety {
			e.addObl(s, e.oblName("safety/type-assert"), "safety", ok, x.Pos(), "type assertion to "+typeKey(x.AssertedType))
		}
		s.assume(ok)
		return i
	}
	ok := Eq(App("dyn", "Int", i), IntLit(int64(e.v.typeTag(x.AssertedType))))
	v := e.unbox(i, x.AssertedType)
	e.constrainValue(s, v, x.AssertedType)
	if x.CommaOk {
		z := e.zeroValue(x.AssertedType)
		return &TupleV{E: []Value{zipLeaves(v, z, func(a, b *Node) *Node { return Ite(ok, a, b) }), ok}}
	}
	if e.safety {
		e.addObl(s, e.oblName("safety/type-assert"), "safety", ok, x.Pos(), "type assertion "+x.X.Name()+".("+typeKey(x.AssertedType)+")")
	}
	s.assume(ok)
	return v
}

// constrainValue adds type-range facts for all leaves of a value of type t.
func (e *Exec) constrainValue(s *State, v Value, t types.Type) {
	ls := e.mode.leaves(t)
	vs := leavesOf(v)
	if len(ls) != len(vs) {
		return
	}
	for i, li := range ls {
		if !vs[i].bound {
			e.constrainLeaf(s, vs[i], li.T, li.Sort)
		}
	}
	e.constrainShape(s, v)
}

func (e *Exec) invoke(s *State, ins ssa.Instruction, c *ssa.CallCommon, args []Value, recv Value) Value {
	// interface method contract: by interface type name + method
	it := c.Value.Type()
	iname := ""
	if n, ok := it.(*types.Named); ok {
		iname = n.Obj().Name()
	} else {
		iname = typeKey(it)
	}
	key := iname + "." + c.Method.Name()
	fc := e.v.db.IfaceMethods[key]
	if fc == nil {
		// embedded interfaces: search by method name over declared interface contracts that the type embeds
		fc = e.v.ifaceMethodByEmbedding(it, c.Method.Name())
	}
	sig := c.Method.Type().(*types.Signature)
	if fc != nil {
		all := append([]Value{recv}, args...)
		fsig := types.NewSignatureType(types.NewVar(0, nil, "self", it), nil, nil, sig.Params(), sig.Results(), sig.Variadic())
		return e.applyContract(s, ins, fc, fsig, nil, all, ins.Pos())
	}
	if c.Method.Name() == "Error" && sig.Params().Len() == 0 {
		return TS.Fresh("errmsg", strSort())
	}
	if e.v.db.NoEffect["invoke:"+key] {
		if t := sigResult(sig); t != nil {
			return e.freshValue(s, "inv_"+c.Method.Name(), t)
		}
		return nil
	}
	e.logAbs("interface method call %s without contract: all heaps havocked", key)
	e.havocAllHeaps(s)
	e.bumpAlloc(s)
	if t := sigResult(sig); t != nil {
		return e.freshValue(s, "inv_"+c.Method.Name(), t)
	}
	return nil
}

// ---------- select / send ----------

func (e *Exec) selectInstr(s *State, x *ssa.Select) Value {
	if x.Blocking {
		e.blockingUnderLock(s, x.Pos(), "blocking select")
	}
	e.logAbs("select: nondeterministic choice, received values unconstrained")
	n := len(x.States)
	idx := e.freshValue(s, "selidx", types.Typ[types.Int]).(*Node)
	lo := e.idx(0)
	if !x.Blocking {
		lo = e.idx(-1)
	}
	s.assume(And(e.ile(lo, idx), e.ilt(idx, e.idx(int64(n)))))
	out := []Value{idx, TS.Fresh("selok", "Bool")}
	for _, st := range x.States {
		if st.Dir == types.SendOnly {
			e.sendSafety(s, e.val(s, st.Chan), x.Pos())
		}
		if st.Dir == types.SendOnly && e.quiet == 0 {
			e.assertValInv(s, e.val(s, st.Send), st.Send.Type(), x, "sent on a channel (select)")
			for _, ci := range e.chanInvsFor(st.Chan) {
				g := e.evalChanInv(ci, s, e.val(s, st.Send), st.Send.Type())
				e.obls = append(e.obls, &Obligation{Name: e.oblName("chaninv/" + ci.Var), Kind: "chaninv", Pos: x.Pos(), Goal: g, Hyp: s.pc, Func: e.funcKey,
					Text: "sent on " + ci.Var + " (select): " + ci.Clause.Text, Props: unionProps(orProps(ci.Props, e.props)), Mode: e.mode, exec: e})
			}
		}
		if st.Dir == types.RecvOnly {
			et := st.Chan.Type().Underlying().(*types.Chan).Elem()
			rv := e.freshValue(s, "selrecv", et)
			e.assumeValInv(s, rv, et)
			e.assumeChanInv(s, st.Chan, rv)
			out = append(out, rv)
		}
	}
	return &TupleV{E: out}
}

func (e *Exec) sendInstr(s *State, x *ssa.Send) {
	e.blockingUnderLock(s, x.Pos(), "channel send")
	e.sendSafety(s, e.val(s, x.Chan), x.Pos())
	e.assertValInv(s, e.val(s, x.X), x.X.Type(), x, "sent on a channel")
	if e.quiet == 0 {
		for _, ci := range e.chanInvsFor(x.Chan) {
			g := e.evalChanInv(ci, s, e.val(s, x.X), x.X.Type())
			e.obls = append(e.obls, &Obligation{Name: e.oblName("chaninv/" + ci.Var), Kind: "chaninv", Pos: x.Pos(), Goal: g, Hyp: s.pc, Func: e.funcKey,
				Text: "sent on " + ci.Var + ": " + ci.Clause.Text, Props: unionProps(orProps(ci.Props, e.props)), Mode: e.mode, exec: e})
		}
	}
	e.logAbs("channel send: no effect on the sending thread")
	if e.fc != nil {
		// hook for lock-scoped send rule
		e.chanSendSite(s, x)
	}
}

func (e *Exec) chanSendSite(s *State, x *ssa.Send) {}

// sortForHeapName derives the SMT sort of a heap from its name (G:Owner.field, A:<elem>[.path],
// H:<pkg.T>.path).
func (e *Exec) sortForHeapName(name string) string {
	if name == chanClosedHeap {
		return chanClosedSort
	}
	switch {
	case strings.HasPrefix(name, "G:"):
		if gf, ok := e.v.db.Ghost[name[2:]]; ok {
			return e.ghostHeapSort(gf, "Iface")
		}
	case strings.HasPrefix(name, "A:"), strings.HasPrefix(name, "H:"):
		rest := name[2:]
		isArr := name[0] == 'A'
		// basic element type
		for _, bt := range types.Typ {
			if bt != nil && typeKey(bt) == rest {
				ls := e.mode.leafSort(bt)
				if isArr {
					return arraySort(RefSort, arraySort(e.mode.idxSort(), ls))
				}
				return arraySort(RefSort, ls)
			}
		}
		// pkg.T.path
		for _, sp := range e.v.prog.AllPackages() {
			pfx := sp.Pkg.Name() + "."
			if !strings.HasPrefix(rest, pfx) {
				continue
			}
			r2 := rest[len(pfx):]
			tn := r2
			path := ""
			if i := strings.IndexAny(r2, ".#"); i >= 0 {
				tn, path = r2[:i], r2[i:]
			}
			obj, ok := sp.Pkg.Scope().Lookup(tn).(*types.TypeName)
			if !ok {
				continue
			}
			for _, li := range e.mode.leaves(obj.Type()) {
				if li.Path == path {
					if isArr {
						return arraySort(RefSort, arraySort(e.mode.idxSort(), li.Sort))
					}
					return arraySort(RefSort, li.Sort)
				}
			}
		}
	}
	return ""
}

// closureRequires: preconditions of a closure under contract speak about variables it captures.
// They are proved where the closure is created, and the captured variables they mention must be
// frozen: assigned only before the creation, never inside any closure ("frozen captures").
func (e *Exec) closureRequires(s *State, mc *ssa.MakeClosure, fn *ssa.Function) {
	if e.quiet > 0 {
		return
	}
	key := e.v.contractKeyFor(fn)
	fc := e.v.db.Funcs[key]
	if fc == nil || len(fc.Requires) == 0 {
		return
	}
	// frozen check for the captured variables named in the requires clauses
	for i, fv := range fn.FreeVars {
		mentioned := false
		for _, r := range fc.Requires {
			if mentionsIdent(r.Text, fv.Name()) {
				mentioned = true
			}
		}
		if !mentioned || i >= len(mc.Bindings) {
			continue
		}
		a, ok := mc.Bindings[i].(*ssa.Alloc)
		if !ok {
			e.unsupported("closure %s: precondition on a capture that is not a local variable (%s)", fn.Name(), fv.Name())
		}
		if why := notFrozen(a, mc); why != "" {
			e.unsupported("closure %s: precondition mentions captured variable %s which is not frozen: %s", fn.Name(), fv.Name(), why)
		}
	}
	cname := e.v.closureName(fn)
	for i, r := range fc.Requires {
		aboutParam := false
		for _, p := range fn.Params {
			if mentionsIdent(r.Text, p.Name()) {
				aboutParam = true
			}
		}
		if aboutParam {
			continue // a precondition on arguments: an obligation of each call, not of the creation
		}
		g := e.evalClauseCur(r, s, e.entry, nil)
		e.obls = append(e.obls, &Obligation{Name: fmt.Sprintf("%s/closure:%s/requires#%d", e.funcKey, cname, i+1), Kind: "requires-at-creation",
			Pos: mc.Pos(), Goal: g, Hyp: s.pc, Func: e.funcKey, Text: r.Text, Props: unionProps(orProps(r.Props, orProps(fc.Props, e.props))), Mode: e.mode, exec: e})
	}
}

func mentionsIdent(text, name string) bool {
	for i := 0; i+len(name) <= len(text); i++ {
		if text[i:i+len(name)] == name {
			before := i == 0 || !isIdentChar(text[i-1])
			after := i+len(name) == len(text) || !isIdentChar(text[i+len(name)])
			if before && after && (i == 0 || text[i-1] != '.') {
				return true
			}
		}
	}
	return false
}

// notFrozen: "" if every store to the variable precedes (dominates) the closure creation and no
// closure of the function stores to it.
func notFrozen(a *ssa.Alloc, mc *ssa.MakeClosure) string {
	fn := a.Parent()
	for _, b := range fn.Blocks {
		for idx, ins := range b.Instrs {
			st, ok := ins.(*ssa.Store)
			if !ok || st.Addr != a {
				continue
			}
			if b == mc.Block() {
				for j, x := range b.Instrs {
					if x == ssa.Instruction(mc) && j < idx {
						return "assigned after the closure is created"
					}
				}
				if reachableFrom(mc.Block())[b] {
					return "assigned in a loop around the closure creation"
				}
				continue
			}
			if reachableFrom(mc.Block())[b] {
				return "assigned on a path after the closure is created"
			}
		}
	}
	var rec func(f *ssa.Function) string
	rec = func(f *ssa.Function) string {
		for _, af := range f.AnonFuncs {
			for _, b := range af.Blocks {
				for _, ins := range b.Instrs {
					if st, ok := ins.(*ssa.Store); ok {
						if fv, ok := st.Addr.(*ssa.FreeVar); ok && fv.Name() == a.Comment {
							return "assigned inside closure " + af.Name()
						}
					}
				}
			}
			if r := rec(af); r != "" {
				return r
			}
		}
		return ""
	}
	return rec(fn)
}

// reachableFrom: blocks reachable from the successors of b.
func reachableFrom(b *ssa.BasicBlock) map[*ssa.BasicBlock]bool {
	seen := map[*ssa.BasicBlock]bool{}
	stack := append([]*ssa.BasicBlock(nil), b.Succs...)
	for len(stack) > 0 {
		x := stack[len(stack)-1]
		stack = stack[:len(stack)-1]
		if seen[x] {
			continue
		}
		seen[x] = true
		stack = append(stack, x.Succs...)
	}
	return seen
}

func indexOfBinding(x *ssa.MakeClosure, b ssa.Value) int {
	for i, y := range x.Bindings {
		if y == b {
			return i
		}
	}
	return -1
}

// freeVarReadOnly: the closure (and closures it creates) never stores through free variable #i and
// never lets its address escape other than into further read-only closures.
func freeVarReadOnly(fn *ssa.Function, i int, depth int) bool {
	if depth > 4 || i >= len(fn.FreeVars) || fn.Blocks == nil {
		return false
	}
	var okUse func(v ssa.Value, d int) bool
	okUse = func(v ssa.Value, d int) bool {
		refs := v.Referrers()
		if refs == nil {
			return false
		}
		for _, r := range *refs {
			switch u := r.(type) {
			case *ssa.UnOp:
				if u.Op != token.MUL {
					return false
				}
			case *ssa.FieldAddr:
				if d > 4 || !okUse(u, d+1) {
					return false
				}
			case *ssa.IndexAddr:
				if d > 4 || !okUse(u, d+1) {
					return false
				}
			case *ssa.MakeClosure:
				for j, b := range u.Bindings {
					if b == v {
						if f, ok := u.Fn.(*ssa.Function); !ok || !freeVarReadOnly(f, j, depth+1) {
							return false
						}
					}
				}
			case *ssa.DebugRef:
			default:
				return false
			}
		}
		return true
	}
	return okUse(fn.FreeVars[i], 0)
}

// closureByVarName: the function literal assigned (once, at its declaration) to the captured or local
// variable the called value was loaded from.
func (e *Exec) closureByVarName(v ssa.Value) *ssa.Function {
	u, ok := v.(*ssa.UnOp)
	if !ok {
		return nil
	}
	name := ""
	switch x := u.X.(type) {
	case *ssa.FreeVar:
		name = x.Name()
	case *ssa.Alloc:
		name = x.Comment
	}
	if name == "" || e.fn == nil {
		return nil
	}
	for p := e.fn; p != nil; p = p.Parent() {
		for _, af := range p.AnonFuncs {
			if e.v.closureName(af) == name {
				return af
			}
		}
	}
	return nil
}

// requiresProps: a precondition checked at a call belongs to the callee's properties (its proof
// assumed it) and to the caller's (the caller's proof uses the callee's postconditions). A clause
// tagged with its own properties ("requires [C07] …") belongs to those only.
func requiresProps(clause, callee, caller []string) []string {
	if len(clause) > 0 {
		return clause
	}
	return unionProps(callee, caller)
}

// reentrantThroughCall: the callee (no contract) locks a mutex field of a monitor type whose mutex is
// held at this call.
func (e *Exec) reentrantThroughCall(s *State, callee *ssa.Function, pos token.Pos) {
	for _, b := range callee.Blocks {
		for _, ins := range b.Instrs {
			c, ok := ins.(*ssa.Call)
			if !ok {
				continue
			}
			f, ok := c.Call.Value.(*ssa.Function)
			if !ok || mutexOp(f.String()) == "" || mutexOp(f.String()) == "unlock" || mutexOp(f.String()) == "runlock" || len(c.Call.Args) == 0 {
				continue
			}
			fa, ok := c.Call.Args[0].(*ssa.FieldAddr)
			if !ok {
				continue
			}
			n, ok := derefType(fa.X.Type()).(*types.Named)
			if !ok {
				continue
			}
			st := n.Underlying().(*types.Struct)
			for _, h := range s.held {
				if h.Mon != nil && h.Mon.TypeName == n.Obj().Name() && h.Mon.MutexField == st.Field(fa.Field).Name() {
					e.addObl(s, e.oblName("monitor/"+h.Key+"/no-reentrant-lock-through-call"), "monitor", Not(s.pc), pos,
						"call to "+callee.Name()+" locks "+h.Key+" while it is already held")
				}
			}
		}
	}
}
