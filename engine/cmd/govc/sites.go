package main

// Site obligations (M2) and library call models.

import (
	"go/token"
	"fmt"
	"go/types"
	"strings"

	"golang.org/x/tools/go/ssa"
)

// extra Exec state (kept here to keep exec.go focused)
type execExtra struct {
	retStates         []retState
	qcount            int
	lemmaPkg          *types.Package
	ghostT            map[string]types.Type
	regionStart       map[string]*State
	noGuard           int
	pendingGuardHeaps []string
	rangeKeys         map[*ssa.Range]string
	havocAll          bool
	curSitePos        token.Pos
	missingAnchors    []string
	byNameCall        int
	stepStart         map[*SiteSpec]*State
	keyFacts          []*Node
	siteBindings      map[*SiteSpec]int
	curLoop           *ssa.BasicBlock
	pendingParamInv   bool
	hypMode           bool
	writtenRefs       map[string][]*Node
	writtenWhole      map[string]bool
	lastRegionStart   *State
	closures          map[*Node]*ClosureV
	phiIn             map[*ssa.BasicBlock][]phiEdge
}

type phiEdge struct {
	from *ssa.BasicBlock
	pc   *Node
}

func (e *Exec) bindSites() {
	e.siteAsserts = map[ssa.Instruction][]*SiteSpec{}
	e.regionStart = map[string]*State{}
	e.rangeKeys = map[*ssa.Range]string{}
	if e.fc == nil {
		return
	}
	sites := append([]*SiteSpec(nil), e.fc.Sites...)
	ruleSites := map[*SiteSpec]bool{}
	for _, r := range e.v.db.Rules {
		if r.PkgPath != e.fc.PkgPath {
			continue
		}
		in := false
		for _, k := range r.Scope {
			if k == e.fc.Key || (strings.HasSuffix(k, "$*") && strings.HasPrefix(e.fc.Key, strings.TrimSuffix(k, "*"))) {
				in = true
			}
		}
		if !in {
			continue
		}
		for _, t := range r.Targets {
			ss := &SiteSpec{Kind: "call", Target: t, Before: true, Assume: r.Assume, Assert: r.Assert, Label: r.Label + ":" + t, Props: r.Props}
			sites = append(sites, ss)
			ruleSites[ss] = true
		}
	}
	for _, ss := range sites {
		n := 0
		for _, b := range e.fn.Blocks {
			for _, ins := range b.Instrs {
				if e.siteMatches(ss, ins) {
					n++
					if ss.Nth == 0 || ss.Nth == n {
						e.siteAsserts[ins] = append(e.siteAsserts[ins], ss)
					}
				}
			}
		}
		if e.siteBindings == nil {
			e.siteBindings = map[*SiteSpec]int{}
		}
		e.siteBindings[ss] = n
		if n == 0 && ruleSites[ss] {
			continue // a rule simply does not apply where its target is not called
		}
		if n == 0 && len(ss.Assert) == 0 && len(ss.Assume) == 0 && ss.Step == "" && len(ss.Ghost) > 0 {
			// a site that only records evidence in ghost variables: if the step it records is gone from
			// the code, the evidence is simply never recorded (the ghost keeps its initial value) and the
			// assertions that need it fail — a violation, not a missing anchor
			continue
		}
		if n == 0 || (ss.Nth > n) {
			// the obligations of this site cannot be generated (reported as undecided); everything else
			// in the function is still verified
			e.missingAnchors = append(e.missingAnchors, fmt.Sprintf("anchor-missing: site %q (%s %s) binds to nothing in %s", ss.Label, ss.Kind, ss.Target, e.funcKey))
		}
	}
}

func (e *Exec) siteMatches(ss *SiteSpec, ins ssa.Instruction) bool {
	switch ss.Kind {
	case "call":
		var c *ssa.CallCommon
		switch x := ins.(type) {
		case *ssa.Call:
			c = &x.Call
		case *ssa.Defer:
			return false
		case *ssa.Go:
			return false
		default:
			return false
		}
		name := calleeName(c)
		return name == ss.Target || shortFuncName(name) == ss.Target || strings.HasSuffix(name, "."+ss.Target) || strings.HasSuffix(name, ")."+ss.Target)
	case "defer":
		// a defer statement of a named function or of the k-th closure: `before defer lit#5`
		d, ok := ins.(*ssa.Defer)
		if !ok {
			return false
		}
		if mc, ok := d.Call.Value.(*ssa.MakeClosure); ok {
			return e.v.closureName(mc.Fn.(*ssa.Function)) == ss.Target
		}
		if f, ok := d.Call.Value.(*ssa.Function); ok {
			return f.Name() == ss.Target || (f.Parent() != nil && e.v.closureName(f) == ss.Target)
		}
		// a deferred call of a function value held in a local variable: `defer removePeer()`
		if u, ok := d.Call.Value.(*ssa.UnOp); ok {
			if a, ok := u.X.(*ssa.Alloc); ok && a.Comment == ss.Target {
				return true
			}
		}
		return ss.Target == "*"
	case "go":
		g, ok := ins.(*ssa.Go)
		if !ok {
			return false
		}
		if mc, ok := g.Call.Value.(*ssa.MakeClosure); ok {
			return e.v.closureName(mc.Fn.(*ssa.Function)) == ss.Target
		}
		if f, ok := g.Call.Value.(*ssa.Function); ok {
			return f.Name() == ss.Target || (f.Parent() != nil && e.v.closureName(f) == ss.Target)
		}
		return false
	case "return":
		// the decision point of a return is before the deferred calls run: bind to the rundefers
		// instruction that precedes the return in its block (or to the return itself if there is none)
		if rd, ok := ins.(*ssa.RunDefers); ok {
			return returnAfter(rd) != nil
		}
		if rt, ok := ins.(*ssa.Return); ok {
			for _, x := range rt.Block().Instrs {
				if _, isRD := x.(*ssa.RunDefers); isRD {
					return false
				}
			}
			return true
		}
		return false
	case "send":
		// a channel send, alone or as a case of a select
		switch x := ins.(type) {
		case *ssa.Send:
			return true
		case *ssa.Select:
			for _, st := range x.States {
				if st.Dir == types.SendOnly {
					return true
				}
			}
		}
		return false
	case "mapupdate":
		mu, ok := ins.(*ssa.MapUpdate)
		if !ok {
			return false
		}
		return ss.Target == "*" || mapOperandName(mu.Map) == ss.Target
	case "store":
		st, ok := ins.(*ssa.Store)
		if !ok {
			return false
		}
		if i := strings.Index(ss.Target, "."); i >= 0 {
			fa, ok := st.Addr.(*ssa.FieldAddr)
			if !ok {
				return false
			}
			pt := derefType(fa.X.Type())
			stt := pt.Underlying().(*types.Struct)
			tn := ""
			if n, ok := pt.(*types.Named); ok {
				tn = n.Obj().Name()
			}
			return tn == ss.Target[:i] && stt.Field(fa.Field).Name() == ss.Target[i+1:]
		}
		if a, ok := st.Addr.(*ssa.Alloc); ok {
			return a.Comment == ss.Target
		}
		if fv, ok := st.Addr.(*ssa.FreeVar); ok {
			return fv.Name() == ss.Target
		}
	}
	return false
}

func (e *Exec) runSiteSpecs(s *State, ins ssa.Instruction, specs []*SiteSpec, before bool) {
	savedPos := e.curSitePos
	e.curSitePos = ins.Pos()
	defer func() { e.curSitePos = savedPos }()
	for _, ss := range specs {
		ss := ss
		func() {
			// a site whose clauses cannot be evaluated at this point (a variable it names does not
			// exist here any more) is reported as undecided; the rest of the function is still verified
			defer func() {
				if r := recover(); r != nil {
					if u, ok := r.(unsupportedErr); ok && strings.HasPrefix(u.msg, "spec:") {
						if e.quiet == 0 {
							e.missingAnchors = append(e.missingAnchors, fmt.Sprintf("site %q of %s cannot be evaluated: %s", ss.Label, e.funcKey, u.msg))
						}
						return
					}
					panic(r)
				}
			}()
			e.runOneSiteSpec(s, ins, ss, before)
		}()
	}
}

func (e *Exec) runOneSiteSpec(s *State, ins ssa.Instruction, ss *SiteSpec, before bool) {
	{
		if ss.Step != "" && !before {
			e.endStep(s, ins, ss)
			return
		}
		if ss.Before != before {
			return
		}
		if ss.Step != "" {
			e.beginStep(s, ins, ss)
		}
		extra := map[string]specVar{}
		// arguments of the call as arg0..argN; results as res / res0..
		if g, ok := ins.(*ssa.Go); ok {
			for i, a := range g.Call.Args {
				extra[fmt.Sprintf("arg%d", i)] = specVar{e.val(s, a), a.Type()}
			}
		}
		if c, ok := ins.(*ssa.Call); ok {
			for i, a := range c.Call.Args {
				extra[fmt.Sprintf("arg%d", i)] = specVar{e.val(s, a), a.Type()}
			}
			if !before {
				if t := c.Type(); t != nil {
					if v, ok := e.regs[c]; ok && v != nil {
						if tv, ok := v.(*TupleV); ok {
							tt := t.(*types.Tuple)
							for i, x := range tv.E {
								extra[fmt.Sprintf("res%d", i)] = specVar{x, tt.At(i).Type()}
							}
						} else {
							extra["res"] = specVar{v, t}
						}
					}
				}
			}
		}
		if st, ok := ins.(*ssa.Store); ok {
			extra["stored"] = specVar{e.val(s, st.Val), st.Val.Type()}
		}
		if mu, ok := ins.(*ssa.MapUpdate); ok {
			extra["stored"] = specVar{e.val(s, mu.Value), mu.Value.Type()}
			extra["key"] = specVar{e.val(s, mu.Key), mu.Key.Type()}
		}
		if rt, ok := ins.(*ssa.Return); ok {
			for i, r := range rt.Results {
				extra[fmt.Sprintf("ret%d", i)] = specVar{e.val(s, r), r.Type()}
			}
		}
		if rd, ok := ins.(*ssa.RunDefers); ok {
			if rt := returnAfter(rd); rt != nil {
				for i, r := range rt.Results {
					// results are loaded from their cells after the deferred calls; read the cells now
					if u, ok := r.(*ssa.UnOp); ok {
						if a, ok := u.X.(*ssa.Alloc); ok {
							if pv, have := e.regs[a]; have {
								extra[fmt.Sprintf("ret%d", i)] = specVar{e.readLoc(s, e.resolve(pv, derefType(a.Type()))), r.Type()}
							}
						}
					}
				}
			}
		}
		// assumptions of a site scope over that site's assertions only; a site without assertions is a
		// persistent (trusted) assumption
		hs := s
		if len(ss.Assert) > 0 {
			hs = s.clone()
		} else if e.quiet == 0 {
			e.v.noteTrusted(fmt.Sprintf("assumed at site %s of %s", ss.Label, e.funcKey))
		}
		for _, a := range ss.Assume {
			hs.assume(e.asHyp(func() *Node { return e.evalClauseCur(a, hs, e.oldState(), extra) }))
		}
		for _, g := range ss.Ghost {
			if strings.HasPrefix(g, "forall ") {
				e.ghostSetAll(s, g, extra)
				continue
			}
			eq := strings.Index(g, "=")
			name := strings.TrimSpace(g[:eq])
			n, err := parseSpec(strings.TrimSpace(g[eq+1:]))
			if err != nil {
				panic(unsupportedErr{"bad ghost assignment " + g})
			}
			extra2 := map[string]specVar{"$current": {}}
			for k, v := range extra {
				extra2[k] = v
			}
			ctx := &SpecCtx{e: e, st: s, old: e.entry, vars: extra2, pkg: e.pkgTypes(), current: true}
			v, vt := ctx.eval(n)
			if dot := strings.LastIndex(name, "."); dot > 0 {
				// ghost field of an object: set X.f = v
				on, err := parseSpec(name[:dot])
				if err != nil {
					panic(unsupportedErr{"bad ghost assignment target " + name})
				}
				ov, ot := ctx.eval(on)
				gf := e.v.ghostField(ot, name[dot+1:])
				if gf == nil {
					panic(unsupportedErr{"no ghost field " + name})
				}
				hn := ghostHeapName(gf)
				sortS := e.ghostHeapSort(gf, "Iface")
				h := e.heap(s, hn, sortS)
				owner := e.ghostOwner(s, ov, ot)
				switch x := v.(type) {
				case *ConstV:
					v = BigLit(x.V)
				case nilV:
					v = IntLit(0)
				}
				e.setHeap(s, hn, Store(h, owner, v.(*Node)), owner)
				continue
			}
			if cv, ok := v.(*ConstV); ok {
				v = e.ar.lit(cv.V, e.ghostT[name])
			} else if isMath(e.ghostT[name]) && vt != nil && !isMath(vt) {
				v = e.ar.Convert(v.(*Node), vt, mathInt)
			}
			if _, declared := e.ghostT[name]; !declared {
				panic(unsupportedErr{"undeclared ghost variable " + name})
			}
			s.ghost[name] = v
			if e.written != nil {
				e.written["ghostvar:"+name] = true
			}
		}
		if e.quiet == 0 {
			e.counters["site:"+ss.Label]++
		}
		ord := e.counters["site:"+ss.Label]
		if e.quiet == 0 && len(ss.Assert) > 0 {
			// vacuity guard: the site must be reachable under its own assumptions
			cname := fmt.Sprintf("%s/site:%s#%d/cover", e.funcKey, ss.Label, ord)
			if ss.Nth == 0 && e.siteBindings[ss] > 1 {
				cname += "/hyp-cover" // one of several bindings: an unreachable one is dead code, not vacuity
			}
			e.obls = append(e.obls, &Obligation{Name: cname, Kind: "cover", Cover: true, Pos: ins.Pos(),
				Goal: tTrue, Hyp: hs.pc, Func: e.funcKey, Text: "site reachable", Props: unionProps(orProps(ss.Props, e.props)), Mode: e.mode, exec: e})
		}
		for i, a := range ss.Assert {
			g := e.evalClauseCur(a, hs, e.oldState(), extra)
			name := fmt.Sprintf("%s/site:%s#%d/assert#%d", e.funcKey, ss.Label, ord, i+1)
			if e.quiet == 0 {
				e.obls = append(e.obls, &Obligation{Name: name, Kind: "site", Pos: ins.Pos(), Goal: g, Hyp: hs.pc, Func: e.funcKey,
					Text: a.Text, Props: unionProps(orProps(a.Props, orProps(ss.Props, e.props))), Mode: e.mode, exec: e})
			}
		}
	}
}

func (e *Exec) atReturn(s *State, r *ssa.Return) {
	// held monitors must have been released
	for _, h := range s.held {
		if h.Inherited {
			continue
		}
		e.addObl(s, e.oblName("monitor/"+h.Key+"/released-at-return"), "monitor", Not(s.pc), r.Pos(), "mutex still held at return")
	}
}

// ---------- library models that need Go code (everything else is an `extern` contract) ----------

func (e *Exec) libCall(s *State, ins ssa.Instruction, callee *ssa.Function, full string, args []Value) (Value, bool) {
	switch full {
	case "(*sync.Once).Do":
		e.logAbs("sync.Once.Do: treated as maybe-call, body effects not applied to the caller's state under contract")
		return nil, true
	case "(*sync.WaitGroup).Wait", "time.Sleep":
		e.blockingUnderLock(s, ins.Pos(), shortFuncName(full))
		e.logAbs("sync.WaitGroup / Sleep: no happens-before modelled")
		return nil, true
	case "(*sync.WaitGroup).Add", "(*sync.WaitGroup).Done", "(*sync.WaitGroup).Go":
		e.logAbs("sync.WaitGroup: no happens-before modelled")
		return nil, true
	case "(*sync.Cond).Wait", "(*sync.Cond).Signal", "(*sync.Cond).Broadcast":
		e.logAbs("sync.Cond: not modelled")
		return nil, true
	}
	if full == "sort.Slice" || full == "sort.SliceStable" {
		if e.sortSlice(s, ins, args) {
			return nil, true
		}
	}
	if r, ok := e.stringLib(s, full, args); ok {
		return r, true
	}
	if full == "encoding/binary.Write" || full == "encoding/binary.Read" {
		if r, ok := e.binaryRW(s, ins, full, args); ok {
			return r, true
		}
	}
	if strings.HasPrefix(full, "sync/atomic.") || strings.HasPrefix(full, "(*sync/atomic.") {
		e.logAbs("sync/atomic operation: unconstrained result")
		if t := sigResult(callee.Signature); t != nil {
			return e.freshValue(s, "atomic", t), true
		}
		return nil, true
	}
	return nil, false
}

// binaryRW models encoding/binary.Write / Read for fixed-width unsigned integers through the
// pseudo-extern contracts binary.WriteU16/32/64 and binary.ReadU16/32/64 of the contract file.
func (e *Exec) binaryRW(s *State, ins ssa.Instruction, full string, args []Value) (Value, bool) {
	call, ok := ins.(*ssa.Call)
	if !ok || len(call.Call.Args) != 3 {
		return nil, false
	}
	mi, ok := call.Call.Args[2].(*ssa.MakeInterface)
	if !ok {
		return nil, false
	}
	errT := types.Universe.Lookup("error").Type()
	errVar := types.NewVar(0, nil, "err", errT)
	if full == "encoding/binary.Write" {
		t := mi.X.Type()
		w, signed, isInt := intInfo(t)
		if !isInt || signed || w < 16 {
			return nil, false
		}
		fc := e.v.db.Funcs[fmt.Sprintf("binary.WriteU%d", w)]
		if fc == nil {
			return nil, false
		}
		sig := types.NewSignatureType(nil, nil, nil,
			types.NewTuple(types.NewVar(0, nil, "w", call.Call.Args[0].Type()), types.NewVar(0, nil, "v", t)),
			types.NewTuple(errVar), false)
		return e.applyContract(s, ins, fc, sig, nil, []Value{args[0], e.val(s, mi.X)}, ins.Pos()), true
	}
	pt, ok := mi.X.Type().Underlying().(*types.Pointer)
	if !ok {
		return nil, false
	}
	t := pt.Elem()
	w, signed, isInt := intInfo(t)
	if !isInt || signed || w < 16 {
		return nil, false
	}
	fc := e.v.db.Funcs[fmt.Sprintf("binary.ReadU%d", w)]
	if fc == nil {
		return nil, false
	}
	sig := types.NewSignatureType(nil, nil, nil,
		types.NewTuple(types.NewVar(0, nil, "r", call.Call.Args[0].Type())),
		types.NewTuple(types.NewVar(0, nil, "v", t), errVar), false)
	res := e.applyContract(s, ins, fc, sig, nil, []Value{args[0]}, ins.Pos()).(*TupleV)
	ptr := e.val(s, mi.X)
	loc := e.resolve(ptr, t)
	old := e.readLoc(s, loc).(*Node)
	errv := res.E[1].(*Node)
	e.writeLoc(s, loc, Ite(Eq(errv, ifaceNil()), res.E[0].(*Node), old))
	return errv, true
}

// ---------- value invariants ----------

func (e *Exec) valInvsFor(t types.Type) []*ValInv {
	if t == nil || len(e.v.db.ValInvs) == 0 {
		return nil
	}
	ptr := false
	if p, ok := t.(*types.Pointer); ok {
		t = p.Elem()
		ptr = true
	}
	n, ok := t.(*types.Named)
	if !ok || n.Obj().Pkg() == nil {
		return nil
	}
	var out []*ValInv
	for _, vi := range e.v.db.ValInvs {
		if vi.TypeName == n.Obj().Name() && vi.PkgPath == n.Obj().Pkg().Path() && vi.Ptr == ptr {
			out = append(out, vi)
		}
	}
	return out
}

func (e *Exec) evalValInv(vi *ValInv, s *State, v Value, t types.Type) *Node {
	cc := calleeCtx{e.v.pkgByPath(vi.PkgPath)}
	return cc.evalWith(e, vi.Clause, s, s, map[string]specVar{"v": {v, t}})
}

func (e *Exec) assumeValInv(s *State, v Value, t types.Type) {
	for _, vi := range e.valInvsFor(t) {
		s.assume(e.asHyp(func() *Node { return e.evalValInv(vi, s, v, t) }))
	}
}

func (e *Exec) assertValInv(s *State, v Value, t types.Type, ins ssa.Instruction, what string) {
	if e.quiet > 0 {
		return
	}
	for _, vi := range e.valInvsFor(t) {
		g := e.evalValInv(vi, s, v, t)
		tn := vi.TypeName
		e.obls = append(e.obls, &Obligation{Name: e.oblName("valinv/" + tn), Kind: "valinv", Pos: ins.Pos(), Goal: g, Hyp: s.pc, Func: e.funcKey,
			Text: what + ": " + vi.Clause.Text, Props: unionProps(orProps(vi.Props, e.props)), Mode: e.mode, exec: e})
	}
}

// initGhostFor: a freshly allocated (zero) object of a type that carries the byte-log ghost fields
// (bytes.Buffer, bytes.Reader) starts with empty logs.
func (e *Exec) initGhostFor(s *State, ref *Node, ptrT types.Type) {
	pt, ok := ptrT.Underlying().(*types.Pointer)
	if !ok {
		return
	}
	n, ok := pt.Elem().(*types.Named)
	if !ok {
		return
	}
	owner, ok := e.v.db.GhostAlias[n.Obj().Name()]
	if !ok {
		// ghost fields declared on this struct type itself start at their zero value (nil / false)
		var key *Node
		for _, gf := range e.v.db.Ghost {
			if gf.Owner != n.Obj().Name() || (gf.Type != "ref" && gf.Type != "bool") {
				continue
			}
			if key == nil {
				key = e.box(s, ref, ptrT)
			}
			name := ghostHeapName(gf)
			sortS := e.ghostHeapSort(gf, "Iface")
			h := e.heap(s, name, sortS)
			e.setHeap(s, name, Store(h, key, zeroOfSort(arrayValSort(sortS))), key)
		}
		return
	}
	key := e.box(s, ref, ptrT)
	for _, gf := range e.v.db.Ghost {
		if gf.Owner != owner || (gf.Type != "int" && gf.Type != "Z") {
			continue
		}
		name := ghostHeapName(gf)
		sortS := e.ghostHeapSort(gf, "Iface")
		h := e.heap(s, name, sortS)
		e.setHeap(s, name, Store(h, key, zeroOfSort(arrayValSort(sortS))), key)
	}
}

// stringLib: the string library functions used by the path validators. In native string mode they
// are theory operators (GOOS=linux: the separator is '/', ToSlash/FromSlash are the identity); in
// the other modes they are uninterpreted functions of their arguments.
func (e *Exec) stringLib(s *State, full string, args []Value) (Value, bool) {
	bin := func(op, uf string) (Value, bool) {
		a, b := args[0].(*Node), args[1].(*Node)
		return strPredicate(op, uf, a, b), true
	}
	switch full {
	case "strings.Contains":
		return bin("str.contains", "uf_strContains")
	case "strings.HasPrefix":
		a, b := args[0].(*Node), args[1].(*Node)
		return strPredicate("str.prefixof", "uf_strPrefix", b, a), true
	case "strings.HasSuffix":
		a, b := args[0].(*Node), args[1].(*Node)
		return strPredicate("str.suffixof", "uf_strSuffix", b, a), true
	case "path/filepath.IsAbs":
		a := args[0].(*Node)
		return strPredicate("str.prefixof", "uf_strPrefix", e.strLit("/"), a), true
	case "path/filepath.ToSlash", "path/filepath.FromSlash":
		return args[0], true
	case "strings.Index":
		a, b := args[0].(*Node), args[1].(*Node)
		if nativeStrings {
			return App("str.indexof", "Int", a, b, IntLit(0)), true
		}
		declStr()
		TS.DeclFun("uf_strIndex", []string{"Str", "Str"}, "Int")
		r := App("uf_strIndex", "Int", a, b)
		s.assume(And(App("<=", "Bool", IntLit(-1), r), App("<", "Bool", r, Ite(App(">", "Bool", e.strLen(a), IntLit(0)), e.strLen(a), IntLit(1)))))
		return r, true
	}
	return nil, false
}

func strPredicate(op, uf string, a, b *Node) *Node {
	if nativeStrings {
		return App(op, "Bool", a, b)
	}
	declStr()
	TS.DeclFun(uf, []string{"Str", "Str"}, "Bool")
	return App(uf, "Bool", a, b)
}

// ---------- map invariants by variable ----------

// mapVarOf: the source variable (local or captured) a map operand was loaded from.
func mapVarOf(v ssa.Value) string {
	u, ok := v.(*ssa.UnOp)
	if !ok {
		return ""
	}
	switch a := u.X.(type) {
	case *ssa.Alloc:
		return a.Comment
	case *ssa.FreeVar:
		return a.Name()
	}
	return ""
}

func (e *Exec) mapInvsFor(mapOperand ssa.Value) []*MapInv {
	if len(e.v.db.MapInvs) == 0 || e.fn == nil {
		return nil
	}
	name := mapVarOf(mapOperand)
	if name == "" {
		return nil
	}
	root := e.fn
	for root.Parent() != nil {
		root = root.Parent()
	}
	var out []*MapInv
	for _, mi := range e.v.db.MapInvs {
		if mi.Var == name && root.Pkg != nil && mi.PkgPath == root.Pkg.Pkg.Path() && mi.Func == root.Name() {
			out = append(out, mi)
		}
	}
	return out
}

func (e *Exec) evalMapInv(mi *MapInv, s *State, k, v Value, mt *types.Map) *Node {
	cc := calleeCtx{e.v.pkgByPath(mi.PkgPath)}
	return cc.evalWith(e, mi.Clause, s, s, map[string]specVar{"k": {k, mt.Key()}, "v": {v, mt.Elem()}})
}

// checkMapInvAliasing: the variable's map value is used only as the operand of lookups, updates,
// len, range and delete (so every update goes through the variable and is seen by the invariant).
func (v *Verifier) checkMapInvAliasing() []string {
	var bad []string
	for _, mi := range v.db.MapInvs {
		sp := v.spkgs[mi.PkgPath]
		if sp == nil {
			continue
		}
		root := sp.Func(mi.Func)
		if root == nil {
			bad = append(bad, "mapinv: no function "+mi.Func)
			continue
		}
		var fns []*ssa.Function
		var add func(f *ssa.Function)
		add = func(f *ssa.Function) {
			fns = append(fns, f)
			for _, a := range f.AnonFuncs {
				add(a)
			}
		}
		add(root)
		for _, f := range fns {
			for _, b := range f.Blocks {
				for _, ins := range b.Instrs {
					u, ok := ins.(*ssa.UnOp)
					if !ok || mapVarOf(u) != mi.Var {
						continue
					}
					if _, isMap := u.Type().Underlying().(*types.Map); !isMap {
						continue
					}
					for _, r := range *u.Referrers() {
						switch x := r.(type) {
						case *ssa.Lookup, *ssa.MapUpdate, *ssa.Range, *ssa.DebugRef:
						case *ssa.Call:
							if bi, ok := x.Call.Value.(*ssa.Builtin); ok && (bi.Name() == "len" || bi.Name() == "delete") {
								continue
							}
							bad = append(bad, fmt.Sprintf("mapinv %s.%s: the map is passed to a call in %s", mi.Func, mi.Var, f.Name()))
						default:
							bad = append(bad, fmt.Sprintf("mapinv %s.%s: the map value escapes (%T) in %s", mi.Func, mi.Var, r, f.Name()))
						}
					}
				}
			}
		}
	}
	return bad
}

// ---------- channel invariants by variable ----------

func (e *Exec) chanInvsFor(chOperand ssa.Value) []*MapInv {
	if len(e.v.db.ChanInvs) == 0 || e.fn == nil {
		return nil
	}
	name := mapVarOf(chOperand)
	if name == "" {
		return nil
	}
	root := e.fn
	for root.Parent() != nil {
		root = root.Parent()
	}
	var out []*MapInv
	for _, ci := range e.v.db.ChanInvs {
		if ci.Var == name && root.Pkg != nil && ci.PkgPath == root.Pkg.Pkg.Path() && ci.Func == root.Name() {
			out = append(out, ci)
		}
	}
	return out
}

func (e *Exec) evalChanInv(ci *MapInv, s *State, v Value, t types.Type) *Node {
	cc := calleeCtx{e.v.pkgByPath(ci.PkgPath)}
	return cc.evalWith(e, ci.Clause, s, s, map[string]specVar{"v": {v, t}})
}

func (e *Exec) assumeChanInv(s *State, ch ssa.Value, v Value) {
	et := ch.Type().Underlying().(*types.Chan).Elem()
	for _, ci := range e.chanInvsFor(ch) {
		s.assume(e.asHyp(func() *Node { return e.evalChanInv(ci, s, v, et) }))
	}
}

func returnAfter(rd *ssa.RunDefers) *ssa.Return {
	seen := false
	for _, x := range rd.Block().Instrs {
		if x == ssa.Instruction(rd) {
			seen = true
			continue
		}
		if seen {
			if rt, ok := x.(*ssa.Return); ok {
				return rt
			}
		}
	}
	return nil
}

// mapOperandName: the field or variable name a map operand was loaded from ("active" for s.active).
func mapOperandName(v ssa.Value) string {
	if u, ok := v.(*ssa.UnOp); ok {
		switch x := u.X.(type) {
		case *ssa.FieldAddr:
			st := derefType(x.X.Type()).Underlying().(*types.Struct)
			return st.Field(x.Field).Name()
		case *ssa.Alloc:
			return x.Comment
		case *ssa.FreeVar:
			return x.Name()
		case *ssa.Global:
			return x.Name()
		}
	}
	return v.Name()
}

// ghostSetAll: bulk ghost assignment  "forall x T :: x.f = <expr over x>"  (the new value of f for
// every object, computed from the current state).
func (e *Exec) ghostSetAll(s *State, g string, extra map[string]specVar) {
	body := strings.TrimPrefix(g, "forall ")
	sep := strings.Index(body, "::")
	if sep < 0 {
		panic(unsupportedErr{"bad bulk ghost assignment " + g})
	}
	bf := strings.Fields(body[:sep])
	asg := strings.TrimSpace(body[sep+2:])
	eq := strings.Index(asg, "=")
	if len(bf) != 2 || eq < 0 {
		panic(unsupportedErr{"bad bulk ghost assignment " + g})
	}
	target := strings.TrimSpace(asg[:eq])
	if !strings.HasPrefix(target, bf[0]+".") {
		panic(unsupportedErr{"bulk ghost assignment must assign a ghost field of the bound object: " + g})
	}
	n, err := parseSpec(strings.TrimSpace(asg[eq+1:]))
	if err != nil {
		panic(unsupportedErr{"bad bulk ghost assignment " + g})
	}
	vars := map[string]specVar{"$current": {}}
	for k, v := range extra {
		vars[k] = v
	}
	ctx := &SpecCtx{e: e, st: s, old: e.oldState(), vars: vars, pkg: e.pkgTypes(), current: true, hyp: true}
	t := ctx.resolveTypeName(bf[1])
	if t == nil {
		panic(unsupportedErr{"bulk ghost assignment: unknown type " + bf[1]})
	}
	bv := BoundVar(bf[0]+"!sa", RefSort)
	vars[bf[0]] = specVar{bv, t}
	gf := e.v.ghostField(t, strings.TrimPrefix(target, bf[0]+"."))
	if gf == nil {
		panic(unsupportedErr{"no ghost field " + target})
	}
	v, _ := ctx.eval(n)
	switch x := v.(type) {
	case *ConstV:
		v = BigLit(x.V)
	case nilV:
		v = IntLit(0)
	}
	hn := ghostHeapName(gf)
	sortS := e.ghostHeapSort(gf, "Iface")
	_ = e.heap(s, hn, sortS)
	owner := e.ghostOwner(s, bv, t)
	nh := TS.Fresh("setall_"+hn, sortS)
	s.assume(Forall([]*Node{bv}, Eq(Select(nh, owner), v.(*Node))))
	e.setHeap(s, hn, nh)
}

// Atomic steps outside the lock. A site "before call f" with `step h` declares the call to be one
// atomic action on the state guarded by h's monitor (e.g. closing a channel): the guarded state is
// arbitrary before it (other threads ran; invariants and rely assumed), and after it the monitor's
// invariants and transitions must hold again — exactly like a Lock…Unlock region around the call.
func (e *Exec) stepTarget(s *State, ss *SiteSpec) (*Node, types.Type, *Monitor) {
	n, err := parseSpec(ss.Step)
	if err != nil {
		panic(unsupportedErr{"bad step object " + ss.Step})
	}
	ctx := &SpecCtx{e: e, st: s, old: s, vars: map[string]specVar{}, pkg: e.pkgTypes()}
	v, t := ctx.eval(n)
	obj, ok := v.(*Node)
	pt, isPtr := t.Underlying().(*types.Pointer)
	if !ok || !isPtr {
		panic(unsupportedErr{"step " + ss.Step + ": not a pointer to an object"})
	}
	mon := e.v.monitorForType(pt.Elem())
	if mon == nil {
		panic(unsupportedErr{"step " + ss.Step + ": no monitor for its type"})
	}
	return obj, pt.Elem(), mon
}

func (e *Exec) beginStep(s *State, ins ssa.Instruction, ss *SiteSpec) {
	obj, objT, mon := e.stepTarget(s, ss)
	before := s.clone()
	e.bumpAlloc(s)
	e.havocGuarded(s, mon, objT, obj)
	e.assumeRely(s, before, mon, objT, obj)
	for _, inv := range mon.Invariants {
		s.assume(e.asHyp(func() *Node { return e.evalMonitorInv(mon, inv, objT, obj, s) }))
	}
	if e.stepStart == nil {
		e.stepStart = map[*SiteSpec]*State{}
	}
	e.stepStart[ss] = s.clone()
}

func (e *Exec) endStep(s *State, ins ssa.Instruction, ss *SiteSpec) {
	obj, objT, mon := e.stepTarget(s, ss)
	if e.quiet == 0 {
		e.counters["step:"+ss.Label]++
	}
	ord := e.counters["step:"+ss.Label]
	for i, inv := range mon.Invariants {
		g := e.evalMonitorInv(mon, inv, objT, obj, s)
		if e.quiet == 0 {
			e.obls = append(e.obls, &Obligation{Name: fmt.Sprintf("%s/step:%s#%d/invariant#%d", e.funcKey, ss.Label, ord, i+1), Kind: "monitor", Pos: ins.Pos(),
				Goal: g, Hyp: s.pc, Func: e.funcKey, Text: inv.Text, Props: unionProps(e.props, mon.Props, inv.Props), Mode: e.mode, exec: e})
		}
	}
	if rs := e.stepStart[ss]; rs != nil {
		for i, tr := range mon.Transitions {
			vars := map[string]specVar{"s": {obj, types.NewPointer(objT)}, "self": {obj, types.NewPointer(objT)}}
			cc := calleeCtx{e.v.pkgByPath(mon.PkgPath)}
			g := cc.evalWith(e, tr, s, rs, vars)
			if e.quiet == 0 {
				e.obls = append(e.obls, &Obligation{Name: fmt.Sprintf("%s/step:%s#%d/transition#%d", e.funcKey, ss.Label, ord, i+1), Kind: "monitor", Pos: ins.Pos(),
					Goal: g, Hyp: s.pc, Func: e.funcKey, Text: tr.Text, Props: unionProps(e.props, mon.Props, tr.Props), Mode: e.mode, exec: e})
			}
		}
	}
	before := s.clone()
	e.havocGuarded(s, mon, objT, obj)
	e.assumeRely(s, before, mon, objT, obj)
}

// sortSlice models sort.Slice(x, less) for a slice boxed at the call: afterwards every element of the
// window is one of the elements that were in the window before (same length, nothing outside the
// window changes). Ordering is not modelled (less is a callback).
func (e *Exec) sortSlice(s *State, ins ssa.Instruction, args []Value) bool {
	call, ok := ins.(*ssa.Call)
	if !ok || len(call.Call.Args) < 1 {
		return false
	}
	mi, ok := call.Call.Args[0].(*ssa.MakeInterface)
	if !ok {
		return false
	}
	st, ok := mi.X.Type().Underlying().(*types.Slice)
	if !ok {
		return false
	}
	sl, ok := e.val(s, mi.X).(*SliceV)
	if !ok {
		return false
	}
	et := st.Elem()
	permName := TS.Fresh("sortperm", "Int").Op // a fresh function symbol name
	fn := "perm_" + sanitize(permName)
	TS.DeclFun(fn, []string{e.mode.idxSort()}, e.mode.idxSort())
	i := BoundVar("i!sp", e.mode.idxSort())
	lo, hi := sl.Off, e.iadd(sl.Off, sl.Len)
	inWin := And(e.ile(lo, i), e.ilt(i, hi))
	pi := App(fn, e.mode.idxSort(), i)
	var facts []*Node
	facts = append(facts, And(e.ile(lo, pi), e.ilt(pi, hi)))
	for _, li := range e.mode.leaves(et) {
		name := heapNameArr(et, li.Path)
		asort := arraySort(e.mode.idxSort(), li.Sort)
		h := e.heap(s, name, arraySort(RefSort, asort))
		oldA := Select(h, sl.Ref)
		na := TS.Fresh("sorted_"+name, asort)
		facts = append(facts, Eq(Select(na, i), Select(oldA, pi)))
		j := BoundVar("j!sp", e.mode.idxSort())
		s.assume(e.hypForall(j, Implies(Or(e.ilt(j, lo), e.ile(hi, j)), Eq(Select(na, j), Select(oldA, j)))))
		e.setHeap(s, name, Store(h, sl.Ref, na), sl.Ref)
	}
	s.assume(e.hypForall(i, Implies(inWin, And(facts...))))
	e.logAbs("sort.Slice: result elements are elements of the input (order not modelled)")
	return true
}
