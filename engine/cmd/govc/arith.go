package main

// Integer semantics in the two arithmetic modes.
//  int: mathematical Int with *exact* Go wrap-around (ite-wrap for + and -, mod for * and
//       narrowing conversions); bit operations other than constant shifts/masks become
//       uninterpreted functions (over-approximation, logged).
//  bv:  fixed-width bit-vectors, everything exact.

import (
	"fmt"
	"go/token"
	"go/types"
	"math/big"
)

type Arith struct {
	m   Mode
	log func(string)
}

func pow2(w int) *big.Int { return new(big.Int).Lsh(big.NewInt(1), uint(w)) }

func (a Arith) lit(v *big.Int, t types.Type) *Node {
	if isMath(t) || a.m == ModeInt {
		return BigLit(v)
	}
	w, _, _ := intInfo(t)
	return BVLit(v, w)
}

func (a Arith) litI(v int64, t types.Type) *Node { return a.lit(big.NewInt(v), t) }

// inRange: lo <= x <= hi for type t (Int mode only; true in BV mode).
func (a Arith) inRange(x *Node, t types.Type) *Node {
	if a.m == ModeBV || isMath(t) {
		return tTrue
	}
	lo, hi := intRange(t)
	return And(App("<=", "Bool", BigLit(lo), x), App("<=", "Bool", x, BigLit(hi)))
}

// wrap1: x is within one modulus of the range.
func (a Arith) wrap1(x *Node, t types.Type) *Node {
	lo, hi := intRange(t)
	w, _, _ := intInfo(t)
	m := BigLit(pow2(w))
	return Ite(App(">", "Bool", x, BigLit(hi)), App("-", "Int", x, m),
		Ite(App("<", "Bool", x, BigLit(lo)), App("+", "Int", x, m), x))
}

// wrapFull: arbitrary x into range of t.
func (a Arith) wrapFull(x *Node, t types.Type) *Node {
	lo, _ := intRange(t)
	w, _, _ := intInfo(t)
	m := BigLit(pow2(w))
	if lo.Sign() == 0 {
		return App("mod", "Int", x, m)
	}
	return App("+", "Int", App("mod", "Int", App("-", "Int", x, BigLit(lo)), m), BigLit(lo))
}

func constVal(n *Node) (*big.Int, bool) {
	if len(n.Args) != 0 {
		return nil, false
	}
	v := new(big.Int)
	if n.Sort == "Int" {
		s := n.Op
		neg := false
		if len(s) > 3 && s[:3] == "(- " {
			neg = true
			s = s[3 : len(s)-1]
		}
		if _, ok := v.SetString(s, 10); ok {
			if neg {
				v.Neg(v)
			}
			return v, true
		}
		return nil, false
	}
	var x string
	var w int
	if n, _ := fmt.Sscanf(n.Op, "(_ bv%s", &x); n == 1 {
		_ = w
		if _, ok := v.SetString(x, 10); ok {
			return v, true
		}
	}
	return nil, false
}

func (a Arith) truncDiv(x, y *Node) *Node {
	// Go: truncated toward zero. SMT div: floor for positive divisor, ceil for negative (Euclidean).
	if c, ok := constVal(y); ok && c.Sign() > 0 {
		return Ite(App(">=", "Bool", x, IntLit(0)), App("div", "Int", x, y),
			App("-", "Int", App("div", "Int", App("-", "Int", x), y)))
	}
	absx := Ite(App(">=", "Bool", x, IntLit(0)), x, App("-", "Int", x))
	absy := Ite(App(">=", "Bool", y, IntLit(0)), y, App("-", "Int", y))
	q := App("div", "Int", absx, absy)
	same := Eq(App(">=", "Bool", x, IntLit(0)), App(">=", "Bool", y, IntLit(0)))
	return Ite(same, q, App("-", "Int", q))
}

func (a Arith) truncRem(x, y *Node) *Node {
	absx := Ite(App(">=", "Bool", x, IntLit(0)), x, App("-", "Int", x))
	absy := Ite(App(">=", "Bool", y, IntLit(0)), y, App("-", "Int", y))
	r := App("mod", "Int", absx, absy)
	return Ite(App(">=", "Bool", x, IntLit(0)), r, App("-", "Int", r))
}

// BinOp on integer operands of Go type t (both already of t's sort). For shifts, y has type yt.
func (a Arith) BinOp(op token.Token, x, y *Node, t types.Type, yt types.Type) *Node {
	if isMath(t) {
		return a.mathOp(op, x, y)
	}
	w, signed, _ := intInfo(t)
	if a.m == ModeBV {
		s := bvSort(w)
		switch op {
		case token.ADD:
			return App("bvadd", s, x, y)
		case token.SUB:
			return App("bvsub", s, x, y)
		case token.MUL:
			return App("bvmul", s, x, y)
		case token.QUO:
			if signed {
				return App("bvsdiv", s, x, y)
			}
			return App("bvudiv", s, x, y)
		case token.REM:
			if signed {
				return App("bvsrem", s, x, y)
			}
			return App("bvurem", s, x, y)
		case token.AND:
			return App("bvand", s, x, y)
		case token.OR:
			return App("bvor", s, x, y)
		case token.XOR:
			return App("bvxor", s, x, y)
		case token.AND_NOT:
			return App("bvand", s, x, App("bvnot", s, y))
		case token.SHL, token.SHR:
			// shift count: unsigned value of y, saturating
			yw, _, _ := intInfo(yt)
			var cnt *Node
			big := tFalse
			if yw > w {
				big = App("bvuge", "Bool", y, BVLit(new(bigInt).SetInt64(int64(w)), yw))
				cnt = App(fmt.Sprintf("(_ extract %d 0)", w-1), s, y)
			} else if yw < w {
				cnt = App(fmt.Sprintf("(_ zero_extend %d)", w-yw), s, y)
			} else {
				cnt = y
			}
			var r *Node
			if op == token.SHL {
				r = App("bvshl", s, x, cnt)
				return Ite(big, BVLit(new(bigInt), w), r)
			}
			if signed {
				r = App("bvashr", s, x, cnt)
				neg := App("bvslt", "Bool", x, BVLit(new(bigInt), w))
				return Ite(big, Ite(neg, BVLit(new(bigInt).SetInt64(-1), w), BVLit(new(bigInt), w)), r)
			}
			r = App("bvlshr", s, x, cnt)
			return Ite(big, BVLit(new(bigInt), w), r)
		}
		panic("bv binop " + op.String())
	}
	// Int mode
	switch op {
	case token.ADD:
		return a.wrap1(App("+", "Int", x, y), t)
	case token.SUB:
		return a.wrap1(App("-", "Int", x, y), t)
	case token.MUL:
		return a.wrapFull(App("*", "Int", x, y), t)
	case token.QUO:
		if !signed {
			return App("div", "Int", x, y)
		}
		return a.wrap1(a.truncDiv(x, y), t)
	case token.REM:
		if !signed {
			return App("mod", "Int", x, y)
		}
		return a.truncRem(x, y)
	case token.SHL:
		if c, ok := constVal(y); ok && c.IsInt64() && c.Int64() < 64 {
			return a.wrapFull(App("*", "Int", x, BigLit(pow2(int(c.Int64())))), t)
		}
	case token.SHR:
		if c, ok := constVal(y); ok && c.IsInt64() && c.Int64() < 64 {
			return App("div", "Int", x, BigLit(pow2(int(c.Int64()))))
		}
	case token.AND:
		// x & (2^k - 1)
		for _, p := range [][2]*Node{{x, y}, {y, x}} {
			if c, ok := constVal(p[1]); ok && c.Sign() >= 0 {
				c1 := new(big.Int).Add(c, big.NewInt(1))
				if c1.BitLen() > 0 && new(big.Int).And(c1, c).Sign() == 0 && !signed {
					return App("mod", "Int", p[0], BigLit(c1))
				}
			}
		}
	}
	if a.log != nil {
		a.log(fmt.Sprintf("int-mode: bit operation %s over-approximated by an uninterpreted function", op))
	}
	fn := fmt.Sprintf("uf_%s_%d_%v", opName(op), w, signed)
	TS.DeclFun(fn, []string{"Int", "Int"}, "Int")
	return App(fn, "Int", x, y)
}

type bigInt = big.Int

func opName(op token.Token) string {
	switch op {
	case token.AND:
		return "and"
	case token.OR:
		return "or"
	case token.XOR:
		return "xor"
	case token.SHL:
		return "shl"
	case token.SHR:
		return "shr"
	case token.AND_NOT:
		return "andnot"
	}
	return "op"
}

func (a Arith) mathOp(op token.Token, x, y *Node) *Node {
	switch op {
	case token.ADD:
		return App("+", "Int", x, y)
	case token.SUB:
		return App("-", "Int", x, y)
	case token.MUL:
		return App("*", "Int", x, y)
	case token.QUO:
		return a.truncDiv(x, y)
	case token.REM:
		return a.truncRem(x, y)
	}
	panic("math op " + op.String())
}

func (a Arith) Cmp(op token.Token, x, y *Node, t types.Type) *Node {
	if op == token.EQL {
		return Eq(x, y)
	}
	if op == token.NEQ {
		return Not(Eq(x, y))
	}
	if isMath(t) || a.m == ModeInt {
		m := map[token.Token]string{token.LSS: "<", token.LEQ: "<=", token.GTR: ">", token.GEQ: ">="}
		return App(m[op], "Bool", x, y)
	}
	_, signed, _ := intInfo(t)
	var m map[token.Token]string
	if signed {
		m = map[token.Token]string{token.LSS: "bvslt", token.LEQ: "bvsle", token.GTR: "bvsgt", token.GEQ: "bvsge"}
	} else {
		m = map[token.Token]string{token.LSS: "bvult", token.LEQ: "bvule", token.GTR: "bvugt", token.GEQ: "bvuge"}
	}
	return App(m[op], "Bool", x, y)
}

func (a Arith) Neg(x *Node, t types.Type) *Node {
	if isMath(t) {
		return App("-", "Int", x)
	}
	if a.m == ModeBV {
		w, _, _ := intInfo(t)
		return App("bvneg", bvSort(w), x)
	}
	return a.wrap1(App("-", "Int", x), t)
}

func (a Arith) BitNot(x *Node, t types.Type) *Node {
	w, signed, _ := intInfo(t)
	if a.m == ModeBV {
		return App("bvnot", bvSort(w), x)
	}
	if signed {
		return App("-", "Int", App("-", "Int", x), IntLit(1))
	}
	return App("-", "Int", BigLit(new(big.Int).Sub(pow2(w), big.NewInt(1))), x)
}

// Convert integer x of type from to type to.
func (a Arith) Convert(x *Node, from, to types.Type) *Node {
	if isMath(to) {
		if a.m == ModeBV {
			panic(unsupportedErr{"Z(...) is not available in bv mode"})
		}
		return x
	}
	if isMath(from) {
		return x // caller is responsible (spec-only)
	}
	fw, fs, _ := intInfo(from)
	tw, ts, _ := intInfo(to)
	if a.m == ModeBV {
		switch {
		case tw == fw:
			return x
		case tw < fw:
			return App(fmt.Sprintf("(_ extract %d 0)", tw-1), bvSort(tw), x)
		default:
			if fs {
				return App(fmt.Sprintf("(_ sign_extend %d)", tw-fw), bvSort(tw), x)
			}
			return App(fmt.Sprintf("(_ zero_extend %d)", tw-fw), bvSort(tw), x)
		}
	}
	// Int mode: value preserved iff fits
	flo, fhi := intRange(from)
	tlo, thi := intRange(to)
	if flo.Cmp(tlo) >= 0 && fhi.Cmp(thi) <= 0 {
		return x
	}
	if tw == fw && fs != ts {
		return a.wrap1(x, to)
	}
	return a.wrapFull(x, to)
}
