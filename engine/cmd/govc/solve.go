package main

// Solver race: z3-new 5.1.0, cvc5 1.0.x, z3 4.8.12. First `unsat` wins.

import (
	"context"
	"fmt"
	"os"
	"os/exec"
	"path/filepath"
	"strings"
	"sync"
	"time"
)

type SolverRun struct {
	Solver  string  `json:"solver"`
	Result  string  `json:"result"` // unsat | sat | unknown | timeout | error
	Seconds float64 `json:"seconds"`
	Output  string  `json:"output,omitempty"`
}

type SolveResult struct {
	Verdict string      `json:"verdict"` // unsat | sat | unknown
	Winner  string      `json:"winner"`
	Runs    []SolverRun `json:"runs"`
	Model   string      `json:"model,omitempty"`
	Seconds float64     `json:"seconds"`
}

var scratchDir string
var scratchSeq int
var scratchMu sync.Mutex

func initScratch() {
	base := os.Getenv("TMPDIR")
	if base == "" {
		base = os.TempDir()
	}
	scratchDir = filepath.Join(base, fmt.Sprintf("govc-%d", os.Getpid()))
	os.MkdirAll(scratchDir, 0o755)
}
func cleanupScratch() {
	if scratchDir != "" {
		os.RemoveAll(scratchDir)
	}
}

func scratchFile(ext string) string {
	scratchMu.Lock()
	defer scratchMu.Unlock()
	scratchSeq++
	return filepath.Join(scratchDir, fmt.Sprintf("q%05d%s", scratchSeq, ext))
}

type solverSpec struct {
	name string
	cmd  func(file string, sec int) []string
}

var solverSeed int

func solverSpecs(strs bool) []solverSpec {
	seed := solverSeed
	cv := solverSpec{"cvc5", func(f string, sec int) []string {
		a := []string{"cvc5", fmt.Sprintf("--tlimit=%d", sec*1000), "--produce-models"}
		if seed != 0 {
			a = append(a, fmt.Sprintf("--seed=%d", seed), "--enum-inst")
		}
		if strs {
			a = append(a, "--strings-exp")
		}
		return append(a, f)
	}}
	if strs {
		return []solverSpec{cv}
	}
	return []solverSpec{
		{"z3-new", func(f string, sec int) []string {
			a := []string{"z3-new", "-smt2", fmt.Sprintf("-T:%d", sec)}
			if seed != 0 {
				a = append(a, fmt.Sprintf("smt.random_seed=%d", seed), fmt.Sprintf("sat.random_seed=%d", seed))
			}
			return append(a, f)
		}},
		cv,
		{"z3", func(f string, sec int) []string {
			a := []string{"z3", "-smt2", fmt.Sprintf("-T:%d", sec)}
			if seed != 0 {
				a = append(a, fmt.Sprintf("smt.random_seed=%d", seed), "smt.arith.random_initial_value=true")
			}
			return append(a, f)
		}},
	}
}

// Solve runs the solvers on the script. all=true waits for every solver (thorough tier).
// SolveSeeded: retry with other random seeds / instantiation strategy (specs are built per call,
// so the seed is passed through a package variable guarded by a mutex).
var seedMu sync.Mutex

func SolveSeeded(script string, timeoutSec int, strs bool, seed int) SolveResult {
	seedMu.Lock()
	solverSeed = seed
	specs := solverSpecs(strs)
	solverSeed = 0
	seedMu.Unlock()
	return solveWith(specs, script, timeoutSec, false)
}

func Solve(script string, timeoutSec int, strs bool, all bool) SolveResult {
	seedMu.Lock()
	specs := solverSpecs(strs)
	seedMu.Unlock()
	return solveWith(specs, script, timeoutSec, all)
}

func solveWith(specs []solverSpec, script string, timeoutSec int, all bool) SolveResult {
	file := scratchFile(".smt2")
	os.WriteFile(file, []byte(script), 0o644)
	defer os.Remove(file)
	ctx, cancel := context.WithCancel(context.Background())
	defer cancel()
	ch := make(chan SolverRun, len(specs))
	start := time.Now()
	for _, sp := range specs {
		sp := sp
		go func() {
			t0 := time.Now()
			args := sp.cmd(file, timeoutSec)
			c, cc := context.WithTimeout(ctx, time.Duration(timeoutSec+2)*time.Second)
			defer cc()
			cmd := exec.CommandContext(c, args[0], args[1:]...)
			out, _ := cmd.CombinedOutput()
			r := SolverRun{Solver: sp.name, Seconds: time.Since(t0).Seconds()}
			s := strings.TrimSpace(string(out))
			first := s
			if i := strings.IndexByte(s, '\n'); i >= 0 {
				first = s[:i]
			}
			switch {
			case first == "unsat":
				r.Result = "unsat"
			case first == "sat":
				r.Result = "sat"
				r.Output = s
			case strings.HasPrefix(first, "unknown"):
				r.Result = "unknown"
			case strings.Contains(first, "timeout") || strings.Contains(s, "interrupted by timeout") || c.Err() != nil:
				r.Result = "timeout"
			default:
				r.Result = "error"
				if len(s) > 600 {
					s = s[:600]
				}
				r.Output = s
			}
			ch <- r
		}()
	}
	res := SolveResult{Verdict: "unknown"}
	for i := 0; i < len(specs); i++ {
		r := <-ch
		res.Runs = append(res.Runs, r)
		if r.Result == "unsat" && res.Verdict != "unsat" {
			res.Verdict = "unsat"
			res.Winner = r.Solver
			if !all {
				cancel()
				break
			}
		}
		if r.Result == "sat" && res.Verdict == "unknown" {
			res.Verdict = "sat"
			res.Winner = r.Solver
			res.Model = r.Output
			if !all {
				// keep waiting briefly? a sat answer is decisive for a quantifier-free query;
				// another solver's unsat would be a disagreement — thorough tier checks that.
				cancel()
				break
			}
		}
	}
	res.Seconds = time.Since(start).Seconds()
	return res
}

const smtPrelude = "(set-logic ALL)\n"

func (r *SolveResult) allErrors() bool {
	if len(r.Runs) == 0 {
		return false
	}
	for _, x := range r.Runs {
		if x.Result != "error" {
			return false
		}
	}
	return true
}
