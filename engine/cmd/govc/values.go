package main

// Value shapes: how Go types are flattened into SMT leaves.

import (
	"regexp"
	"fmt"
	"go/types"
	"math/big"
	"strings"
)

type Mode int

const (
	ModeInt Mode = iota
	ModeBV
)

const RefSort = "Int"

// mathInt is the type of Z(...) expressions in specifications.
var mathInt = types.NewNamed(types.NewTypeName(0, nil, "Z", nil), types.Typ[types.Int], nil)

type Value interface{}

type StructV struct {
	T *types.Struct
	F []Value
}
type SliceV struct{ Ref, Off, Len, Cap *Node }
type ArrayV struct { // value-typed array [N]E: each leaf of E becomes an SMT array Idx->leaf
	Elem Value
	N    int64
	ET   types.Type
}
type TupleV struct{ E []Value }

// Pointers
type LocalPtr struct{ Cell interface{} } // *ssa.Alloc or other key into State.locals
type FieldPtr struct {
	Base Value
	ST   *types.Struct
	Idx  int
	NT   types.Type // pointee type of Base (named if the source type is)
}
type ElemPtr struct {
	// element idx of heap array object `Ref` (slice backing or pointed-to array), or of a local array
	Base Value // *Node (Ref of array object) or pointer Value to an array (LocalPtr/FieldPtr)
	Idx  *Node
	ET   types.Type
	heapArr bool
}

// untyped constant in specs
type ConstV struct{ V *big.Int }

func (m Mode) idxSort() string {
	if m == ModeBV {
		return bvSort(64)
	}
	return "Int"
}

func intInfo(t types.Type) (w int, signed bool, ok bool) {
	b, isB := t.Underlying().(*types.Basic)
	if !isB {
		return 0, false, false
	}
	switch b.Kind() {
	case types.Int8:
		return 8, true, true
	case types.Int16:
		return 16, true, true
	case types.Int32:
		return 32, true, true
	case types.Int64, types.Int:
		return 64, true, true
	case types.Uint8:
		return 8, false, true
	case types.Uint16:
		return 16, false, true
	case types.Uint32:
		return 32, false, true
	case types.Uint64, types.Uint, types.Uintptr:
		return 64, false, true
	case types.UntypedInt, types.UntypedRune:
		return 64, true, true
	}
	return 0, false, false
}

func isMath(t types.Type) bool { return t == mathInt }

func (m Mode) intSort(t types.Type) string {
	if isMath(t) {
		return "Int"
	}
	w, _, ok := intInfo(t)
	if !ok {
		panic("not an int type: " + t.String())
	}
	if m == ModeBV {
		return bvSort(w)
	}
	return "Int"
}

func intRange(t types.Type) (lo, hi *big.Int) {
	w, s, _ := intInfo(t)
	one := big.NewInt(1)
	if s {
		hi = new(big.Int).Sub(new(big.Int).Lsh(one, uint(w-1)), one)
		lo = new(big.Int).Neg(new(big.Int).Lsh(one, uint(w-1)))
	} else {
		lo = big.NewInt(0)
		hi = new(big.Int).Sub(new(big.Int).Lsh(one, uint(w)), one)
	}
	return
}

// leafSort returns the SMT sort for a leaf Go type, or "" if the type is composite.
func (m Mode) leafSort(t types.Type) string {
	if isMath(t) {
		return "Int"
	}
	if isDeferStack(t) {
		return ""
	}
	switch u := t.Underlying().(type) {
	case *types.Basic:
		switch {
		case u.Info()&types.IsBoolean != 0:
			return "Bool"
		case u.Info()&types.IsInteger != 0:
			return m.intSort(t)
		case u.Info()&types.IsFloat != 0:
			return "Real"
		case u.Info()&types.IsString != 0:
			return strSort()
		case u.Kind() == types.UnsafePointer:
			return RefSort
		case u.Kind() == types.UntypedNil:
			return RefSort
		}
	case *types.Pointer, *types.Map, *types.Chan, *types.Signature:
		return RefSort
	case *types.Interface:
		return "Iface"
	}
	return ""
}

var aliasRe = regexp.MustCompile(`\b(byte|rune)\b`)

// typeKey: canonical name of a type (byte/rune aliases normalised so that []byte and []uint8
// share one array heap).
func typeKey(t types.Type) string {
	s := types.TypeString(t, func(p *types.Package) string { return p.Name() })
	return aliasRe.ReplaceAllStringFunc(s, func(m string) string {
		if m == "byte" {
			return "uint8"
		}
		return "int32"
	})
}

// leafPath enumerates leaves of type t: calls f(path, leafType, kind) where path is a
// dotted suffix such as ".Size" or ".data#len".
type leafInfo struct {
	Path string
	T    types.Type // Go type of the leaf (for slices components: int or nil for ref)
	Sort string
}

func (m Mode) leaves(t types.Type) []leafInfo {
	var out []leafInfo
	var rec func(path string, t types.Type)
	rec = func(path string, t types.Type) {
		if s := m.leafSort(t); s != "" {
			out = append(out, leafInfo{path, t, s})
			return
		}
		if isDeferStack(t) {
			return
		}
		switch u := t.Underlying().(type) {
		case *types.Struct:
			for i := 0; i < u.NumFields(); i++ {
				rec(path+"."+u.Field(i).Name(), u.Field(i).Type())
			}
		case *types.Slice:
			out = append(out, leafInfo{path + "#ref", nil, RefSort})
			out = append(out, leafInfo{path + "#off", types.Typ[types.Int], m.idxSort()})
			out = append(out, leafInfo{path + "#len", types.Typ[types.Int], m.idxSort()})
			out = append(out, leafInfo{path + "#cap", types.Typ[types.Int], m.idxSort()})
		case *types.Array:
			for _, l := range m.leaves(u.Elem()) {
				out = append(out, leafInfo{path + "[]" + l.Path, nil, arraySort(m.idxSort(), l.Sort)})
			}
		case *types.Tuple:
			for i := 0; i < u.Len(); i++ {
				rec(fmt.Sprintf("%s#%d", path, i), u.At(i).Type())
			}
		default:
			panic(fmt.Sprintf("leaves: unsupported type %s (%T)", t, u))
		}
	}
	rec("", t)
	return out
}

// build reconstructs a Value of type t from leaves produced in `leaves` order.
func (m Mode) build(t types.Type, next func(li leafInfo) *Node) Value {
	var rec func(path string, t types.Type) Value
	rec = func(path string, t types.Type) Value {
		if s := m.leafSort(t); s != "" {
			return next(leafInfo{path, t, s})
		}
		if isDeferStack(t) {
			return &StructV{}
		}
		switch u := t.Underlying().(type) {
		case *types.Struct:
			sv := &StructV{T: u}
			for i := 0; i < u.NumFields(); i++ {
				sv.F = append(sv.F, rec(path+"."+u.Field(i).Name(), u.Field(i).Type()))
			}
			return sv
		case *types.Slice:
			return &SliceV{
				Ref: next(leafInfo{path + "#ref", nil, RefSort}),
				Off: next(leafInfo{path + "#off", types.Typ[types.Int], m.idxSort()}),
				Len: next(leafInfo{path + "#len", types.Typ[types.Int], m.idxSort()}),
				Cap: next(leafInfo{path + "#cap", types.Typ[types.Int], m.idxSort()}),
			}
		case *types.Array:
			ev := m.buildArr(path+"[]", u.Elem(), next)
			return &ArrayV{Elem: ev, N: u.Len(), ET: u.Elem()}
		case *types.Tuple:
			tv := &TupleV{}
			for i := 0; i < u.Len(); i++ {
				tv.E = append(tv.E, rec(fmt.Sprintf("%s#%d", path, i), u.At(i).Type()))
			}
			return tv
		}
		panic(fmt.Sprintf("build: unsupported type %s", t))
	}
	return rec("", t)
}

// buildArr builds the element-shaped value whose leaves are SMT arrays.
func (m Mode) buildArr(path string, et types.Type, next func(li leafInfo) *Node) Value {
	return m.build(et, func(li leafInfo) *Node {
		return next(leafInfo{path + li.Path, nil, arraySort(m.idxSort(), li.Sort)})
	})
}

// mapLeaves applies f to every leaf of v (same shape result).
func mapLeaves(v Value, f func(*Node) *Node) Value {
	switch x := v.(type) {
	case *Node:
		return f(x)
	case *StructV:
		o := &StructV{T: x.T, F: make([]Value, len(x.F))}
		for i := range x.F {
			o.F[i] = mapLeaves(x.F[i], f)
		}
		return o
	case *SliceV:
		return &SliceV{f(x.Ref), f(x.Off), f(x.Len), f(x.Cap)}
	case *ArrayV:
		return &ArrayV{Elem: mapLeaves(x.Elem, f), N: x.N, ET: x.ET}
	case *TupleV:
		o := &TupleV{E: make([]Value, len(x.E))}
		for i := range x.E {
			o.E[i] = mapLeaves(x.E[i], f)
		}
		return o
	case nil:
		return nil
	}
	panic(fmt.Sprintf("mapLeaves: %T", v))
}

func zipLeaves(a, b Value, f func(x, y *Node) *Node) Value {
	switch x := a.(type) {
	case *Node:
		y, ok := b.(*Node)
		if !ok {
			panic(fmt.Sprintf("zipLeaves shape mismatch: Node vs %T", b))
		}
		return f(x, y)
	case *StructV:
		y := b.(*StructV)
		o := &StructV{T: x.T, F: make([]Value, len(x.F))}
		for i := range x.F {
			o.F[i] = zipLeaves(x.F[i], y.F[i], f)
		}
		return o
	case *SliceV:
		y := b.(*SliceV)
		return &SliceV{f(x.Ref, y.Ref), f(x.Off, y.Off), f(x.Len, y.Len), f(x.Cap, y.Cap)}
	case *ArrayV:
		y := b.(*ArrayV)
		return &ArrayV{Elem: zipLeaves(x.Elem, y.Elem, f), N: x.N, ET: x.ET}
	case *TupleV:
		y := b.(*TupleV)
		o := &TupleV{E: make([]Value, len(x.E))}
		for i := range x.E {
			o.E[i] = zipLeaves(x.E[i], y.E[i], f)
		}
		return o
	case *LocalPtr:
		y, ok := b.(*LocalPtr)
		if !ok || y.Cell != x.Cell {
			panic("cannot merge distinct local pointers")
		}
		return x
	case *FieldPtr:
		y, ok := b.(*FieldPtr)
		if !ok || y.Idx != x.Idx {
			panic("cannot merge distinct field pointers")
		}
		return &FieldPtr{Base: zipLeaves(x.Base, y.Base, f), ST: x.ST, Idx: x.Idx, NT: x.NT}
	case *ElemPtr:
		y, ok := b.(*ElemPtr)
		if !ok {
			panic("cannot merge elem pointers")
		}
		return &ElemPtr{Base: zipLeaves(x.Base, y.Base, f), Idx: f(x.Idx, y.Idx), ET: x.ET, heapArr: x.heapArr}
	case nil:
		return nil
	}
	panic(fmt.Sprintf("zipLeaves: %T", a))
}

func leavesOf(v Value) []*Node {
	var out []*Node
	mapLeaves(v, func(n *Node) *Node { out = append(out, n); return n })
	return out
}

func valuesEqual(a, b Value) (eq bool) {
	defer func() {
		if recover() != nil {
			eq = false
		}
	}()
	eq = true
	zipLeaves(a, b, func(x, y *Node) *Node {
		if x != y {
			eq = false
		}
		return x
	})
	return
}

func heapNameObj(t types.Type, path string) string { return "H:" + typeKey(t) + path }
func heapNameArr(et types.Type, path string) string { return "A:" + typeKey(et) + path }

func shortName(s string) string {
	if i := strings.LastIndex(s, "/"); i >= 0 {
		return s[i+1:]
	}
	return s
}

func isDeferStack(t types.Type) bool { return strings.Contains(t.String(), "deferStack") }

// nativeStrings: verify the current function in the SMT theory of strings (cvc5): the Go string
// type becomes String, the few string library functions used by the validators become theory
// operators. Elsewhere strings are an uninterpreted sort with length and byte content.
var nativeStrings bool

func strSort() string {
	if nativeStrings {
		return "String"
	}
	return "Str"
}

func isStrSort(s string) bool { return s == "Str" || s == "String" }

func smtStringLit(x string) *Node {
	var sb strings.Builder
	sb.WriteByte('"')
	for i := 0; i < len(x); i++ {
		c := x[i]
		switch {
		case c == '"':
			sb.WriteString(`""`)
		case c >= 0x20 && c < 0x7f && c != '\\':
			sb.WriteByte(c)
		default:
			fmt.Fprintf(&sb, "\\u{%x}", c)
		}
	}
	sb.WriteByte('"')
	return TS.mk(sb.String(), "String")
}
