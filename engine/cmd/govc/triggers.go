package main

// Trigger completion for quantified array facts used as hypotheses.
//
// Solvers instantiate ∀i. b[off+i] == a[p+i] reliably only through a select whose index is the
// bound variable itself. For every offset term t occurring as `t + i` in a select index we add the
// equivalent re-indexed variant ∀k. φ[i := k − t] (Z → Z bijection, so the variant is implied by
// and implies the original): some variant then has a plain-variable trigger for each array.

import "strings"

// offsetOf decomposes idx = bv + rest (rest free of bv). plain: idx == bv.
func offsetOf(idx, bv *Node) (rest *Node, ok bool) {
	if idx == bv {
		return nil, true
	}
	if !idx.bound || !mentionsNode(idx, bv) {
		return nil, false
	}
	switch idx.Op {
	case "+":
		var with *Node
		var others []*Node
		for _, a := range idx.Args {
			if mentionsNode(a, bv) {
				if with != nil {
					return nil, false
				}
				with = a
			} else {
				others = append(others, a)
			}
		}
		if with == nil {
			return nil, false
		}
		r, ok := offsetOf(with, bv)
		if !ok {
			return nil, false
		}
		if r != nil {
			others = append(others, r)
		}
		return sumNodes(others), true
	case "-":
		if len(idx.Args) == 2 && !mentionsNode(idx.Args[1], bv) {
			r, ok := offsetOf(idx.Args[0], bv)
			if !ok {
				return nil, false
			}
			neg := App("-", "Int", idx.Args[1])
			if r == nil {
				return neg, true
			}
			return App("+", "Int", r, neg), true
		}
	}
	return nil, false
}

func sumNodes(ns []*Node) *Node {
	switch len(ns) {
	case 0:
		return IntLit(0)
	case 1:
		return ns[0]
	}
	return App("+", "Int", ns...)
}

func mentionsNode(n, x *Node) bool {
	if n == x {
		return true
	}
	if !n.bound {
		return false
	}
	for _, a := range n.Args {
		if mentionsNode(a, x) {
			return true
		}
	}
	return false
}

// collectOffsets finds the distinct non-plain offsets of bv in select indices of body.
func collectOffsets(body, bv *Node) (offs []*Node, hasPlain bool) {
	seen := map[int]bool{}
	got := map[int]bool{}
	var walk func(n *Node)
	walk = func(n *Node) {
		if seen[n.id] || !n.bound {
			return
		}
		seen[n.id] = true
		if n.Op == "select" && len(n.Args) == 2 && n.Args[1].Sort == "Int" {
			if r, ok := offsetOf(n.Args[1], bv); ok {
				if r == nil {
					hasPlain = true
				} else if !got[r.id] && !r.bound {
					got[r.id] = true
					offs = append(offs, r)
				}
			}
		}
		for _, a := range n.Args {
			walk(a)
		}
	}
	walk(body)
	return
}

// substIndex rebuilds n with bv replaced by (k − t); select indices of the form bv + t' become
// k (when t' is t) or k + (t' − t).
func substIndex(n, bv, k, t *Node, memo map[int]*Node) *Node {
	if !n.bound || !mentionsNode(n, bv) {
		return n
	}
	if r, ok := memo[n.id]; ok {
		return r
	}
	var out *Node
	switch {
	case n == bv:
		out = App("-", "Int", k, t)
	case n.Op == "select" && len(n.Args) == 2 && n.Args[1].Sort == "Int":
		arr := substIndex(n.Args[0], bv, k, t, memo)
		if r, ok := offsetOf(n.Args[1], bv); ok {
			var idx *Node
			switch {
			case r == t:
				idx = k
			case r == nil:
				idx = App("-", "Int", k, t)
			default:
				idx = App("+", "Int", k, App("-", "Int", r, t))
			}
			out = Select(arr, idx)
		} else {
			out = Select(arr, substIndex(n.Args[1], bv, k, t, memo))
		}
	case n.Binders != "":
		body := substIndex(n.Args[0], bv, k, t, memo)
		q := TS.mk(n.Op, "Bool", body)
		q.Binders = n.Binders
		q.bound = true
		out = q
	default:
		args := make([]*Node, len(n.Args))
		for i, a := range n.Args {
			args[i] = substIndex(a, bv, k, t, memo)
		}
		out = TS.mk(n.Op, n.Sort, args...)
	}
	memo[n.id] = out
	return out
}

var trigCount int

// withTriggerVariants: for a hypothesis ∀bv. body (single Int binder), the conjunction of the
// formula with its re-indexed variants.
func withTriggerVariants(bv, body *Node) *Node {
	orig := Forall([]*Node{bv}, body)
	if bv.Sort != "Int" {
		return orig
	}
	offs, _ := collectOffsets(body, bv)
	if len(offs) == 0 || len(offs) > 4 {
		return orig
	}
	out := []*Node{orig}
	for _, t := range offs {
		trigCount++
		k := BoundVar(strings.TrimPrefix(bv.Op, "bv:")+"!v"+itoa(trigCount), "Int")
		nb := substIndex(body, bv, k, t, map[int]*Node{})
		out = append(out, Forall([]*Node{k}, nb))
	}
	return And(out...)
}

func itoa(i int) string {
	if i == 0 {
		return "0"
	}
	s := ""
	for i > 0 {
		s = string(rune('0'+i%10)) + s
		i /= 10
	}
	return s
}

func (e *Exec) hypForall(bv, body *Node) *Node {
	if e.mode == ModeInt {
		return withTriggerVariants(bv, body)
	}
	return Forall([]*Node{bv}, body)
}
