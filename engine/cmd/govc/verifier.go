package main

// Loader, lookups, per-contract verification drivers.

import (
	"fmt"
	"go/token"
	"go/types"
	"os"
	"path/filepath"
	"runtime/debug"
	"sort"
	"strings"

	"golang.org/x/tools/go/packages"
	"golang.org/x/tools/go/ssa"
	"golang.org/x/tools/go/ssa/ssautil"
)

const repoModule = "github.com/sheerbytes/sheerbytes"

var contractPkgs = []string{
	"internal/transfer", "internal/app", "internal/peers", "internal/session",
	"internal/scheduler", "pkg/manifest", "cmd/thruserv", "internal/config",
}

type Verifier struct {
	repo     string
	prog     *ssa.Program
	pkgs     []*packages.Package
	spkgs    map[string]*ssa.Package
	db       *ContractDB
	fset     *token.FileSet
	sizes    types.Sizes
	tags     map[string]int
	trusted  map[string]bool
	structNames map[*types.Struct]types.Type
	loadSecs float64
	errors   []string
}

func cleanEnv() []string {
	var out []string
	for _, e := range os.Environ() {
		if strings.HasPrefix(e, "GOTOOLCHAIN=") || strings.HasPrefix(e, "GOSUMDB=") || strings.HasPrefix(e, "GOFLAGS=") {
			continue
		}
		out = append(out, e)
	}
	return append(out, "GOFLAGS=-mod=mod", "GOPROXY=off")
}

func loadVerifier(repo string, overlay map[string][]byte) (*Verifier, error) {
	v := &Verifier{repo: repo, spkgs: map[string]*ssa.Package{}, tags: map[string]int{}, trusted: map[string]bool{},
		structNames: map[*types.Struct]types.Type{}}
	cfg := &packages.Config{
		Mode:       packages.LoadAllSyntax,
		Dir:        repo,
		BuildFlags: []string{"-tags=verif"},
		Env:        cleanEnv(),
		Overlay:    overlay,
	}
	var pats []string
	for _, p := range contractPkgs {
		pats = append(pats, "./"+p)
	}
	pkgs, err := packages.Load(cfg, pats...)
	if err != nil {
		return nil, err
	}
	for _, p := range pkgs {
		for _, e := range p.Errors {
			v.errors = append(v.errors, e.Error())
		}
	}
	if len(v.errors) > 0 {
		return v, fmt.Errorf("package load errors: %s", strings.Join(v.errors, "; "))
	}
	v.pkgs = pkgs
	prog, spkgs := ssautil.AllPackages(pkgs, ssa.NaiveForm)
	v.prog = prog
	for i, sp := range spkgs {
		if sp != nil {
			sp.Build()
			v.spkgs[pkgs[i].PkgPath] = sp
		}
	}
	v.fset = prog.Fset
	v.sizes = types.SizesFor("gc", "amd64")
	v.db = newContractDB()
	for _, p := range pkgs {
		// contract file lives beside the package sources
		if len(p.GoFiles) == 0 {
			continue
		}
		dir := filepath.Dir(p.GoFiles[0])
		path := filepath.Join(dir, "zz_contracts_verif.go")
		var src []byte
		if o, ok := overlay[path]; ok {
			src = o
		} else if _, err := os.Stat(path); err != nil {
			continue
		}
		if err := v.db.loadContractFile(path, p.PkgPath, src); err != nil {
			return v, err
		}
	}
	// shared library contracts kept under /verif/contracts (not in /repo): externs only
	return v, nil
}

func (v *Verifier) noteTrusted(s string) { v.trusted[s] = true }

// heapPkgName: heap names carry the package *name* (typeKey), which differs from the last path
// element for main packages.
func (v *Verifier) heapPkgName(path string) string {
	if p := v.pkgByPath(path); p != nil {
		return p.Name()
	}
	return shortPkg(path)
}

func (v *Verifier) pkgByPath(path string) *types.Package {
	if sp, ok := v.spkgs[path]; ok {
		return sp.Pkg
	}
	for _, sp := range v.prog.AllPackages() {
		if sp.Pkg.Path() == path {
			return sp.Pkg
		}
	}
	return nil
}

func (v *Verifier) lookupType(pkgPath, name string) types.Type {
	p := v.pkgByPath(pkgPath)
	if p == nil {
		return nil
	}
	if tn, ok := p.Scope().Lookup(name).(*types.TypeName); ok {
		return tn.Type()
	}
	return nil
}

func (v *Verifier) namedForStruct(st *types.Struct) types.Type {
	if t, ok := v.structNames[st]; ok {
		return t
	}
	for _, sp := range v.prog.AllPackages() {
		sc := sp.Pkg.Scope()
		for _, n := range sc.Names() {
			if tn, ok := sc.Lookup(n).(*types.TypeName); ok {
				if s, ok := tn.Type().Underlying().(*types.Struct); ok {
					v.structNames[s] = tn.Type()
				}
			}
		}
	}
	if t, ok := v.structNames[st]; ok {
		return t
	}
	return st
}

func (v *Verifier) typeTag(t types.Type) int {
	k := typeKey(t)
	if n, ok := v.tags[k]; ok {
		return n
	}
	n := len(v.tags) + 1
	v.tags[k] = n
	return n
}

func (v *Verifier) globalFor(o *types.Var) *ssa.Global {
	if o.Pkg() == nil {
		return nil
	}
	for _, sp := range v.prog.AllPackages() {
		if sp.Pkg == o.Pkg() {
			if g, ok := sp.Members[o.Name()].(*ssa.Global); ok {
				return g
			}
		}
	}
	return nil
}

func (v *Verifier) findFunc(pkg *types.Package, name string) *ssa.Function {
	for _, sp := range v.prog.AllPackages() {
		if sp.Pkg == pkg {
			return sp.Func(name)
		}
	}
	return nil
}

func (v *Verifier) findMethod(recv types.Type, name string) *ssa.Function {
	ms := v.prog.MethodSets.MethodSet(recv)
	for i := 0; i < ms.Len(); i++ {
		if ms.At(i).Obj().Name() == name {
			return v.prog.MethodValue(ms.At(i))
		}
	}
	return nil
}

// contractKeyFor: "<pkgpath>.<Key>" where Key is Name | (*T).Name | (T).Name | Outer$lit
func (v *Verifier) contractKeyFor(fn *ssa.Function) string {
	if fn.Parent() != nil {
		return v.contractKeyFor(fn.Parent()) + "$" + v.closureName(fn)
	}
	pkg := ""
	if fn.Pkg != nil {
		pkg = fn.Pkg.Pkg.Path()
	}
	if recv := fn.Signature.Recv(); recv != nil {
		t := recv.Type()
		if p, ok := t.(*types.Pointer); ok {
			if n, ok := p.Elem().(*types.Named); ok {
				if n.Obj().Pkg() != nil {
					pkg = n.Obj().Pkg().Path()
				}
				return pkg + ".(*" + n.Obj().Name() + ")." + fn.Name()
			}
		}
		if n, ok := t.(*types.Named); ok {
			if n.Obj().Pkg() != nil {
				pkg = n.Obj().Pkg().Path()
			}
			return pkg + ".(" + n.Obj().Name() + ")." + fn.Name()
		}
	}
	return pkg + "." + fn.Name()
}

// closureName: the local variable the literal is assigned to, if any ("finalizeFile"), else
// go#k / lit#k by source order among the parent's anonymous functions.
func (v *Verifier) closureName(fn *ssa.Function) string {
	parent := fn.Parent()
	// assigned to a local: find `Store addr(MakeClosure fn)` into an Alloc with a Comment
	for _, b := range parent.Blocks {
		for _, ins := range b.Instrs {
			if st, ok := ins.(*ssa.Store); ok {
				if mc, ok := st.Val.(*ssa.MakeClosure); ok && mc.Fn == fn {
					if a, ok := st.Addr.(*ssa.Alloc); ok && a.Comment != "" {
						return a.Comment
					}
				}
			}
		}
	}
	// ordinal among go / other literals
	isGo := func(f *ssa.Function) bool {
		for _, b := range parent.Blocks {
			for _, ins := range b.Instrs {
				if g, ok := ins.(*ssa.Go); ok {
					if mc, ok := g.Call.Value.(*ssa.MakeClosure); ok && mc.Fn == f {
						return true
					}
					if g.Call.Value == f {
						return true
					}
				}
			}
		}
		return false
	}
	var anon []*ssa.Function
	anon = append(anon, parent.AnonFuncs...)
	sort.Slice(anon, func(i, j int) bool { return anon[i].Pos() < anon[j].Pos() })
	kind := "lit"
	if isGo(fn) {
		kind = "go"
	}
	k := 0
	for _, f := range anon {
		fk := "lit"
		if isGo(f) {
			fk = "go"
		}
		if fk == kind {
			k++
		}
		if f == fn {
			return fmt.Sprintf("%s#%d", kind, k)
		}
	}
	return fn.Name()
}

// funcForKey resolves a contract key to the ssa function.
func (v *Verifier) funcForKey(pkgPath, key string) *ssa.Function {
	sp := v.spkgs[pkgPath]
	if sp == nil {
		return nil
	}
	parts := strings.Split(key, "$")
	var fn *ssa.Function
	head := parts[0]
	if strings.HasPrefix(head, "(") {
		// (*T).Name or (T).Name
		i := strings.Index(head, ")")
		tn := strings.TrimPrefix(head[1:i], "*")
		ptr := strings.HasPrefix(head[1:], "*")
		name := head[i+2:]
		obj, ok := sp.Pkg.Scope().Lookup(tn).(*types.TypeName)
		if !ok {
			return nil
		}
		var t types.Type = obj.Type()
		if ptr {
			t = types.NewPointer(t)
		}
		fn = v.findMethod(t, name)
	} else {
		fn = sp.Func(head)
	}
	for _, p := range parts[1:] {
		if fn == nil {
			return nil
		}
		var next *ssa.Function
		for _, a := range fn.AnonFuncs {
			if v.closureName(a) == p {
				next = a
			}
		}
		fn = next
	}
	return fn
}

func (v *Verifier) noEffectPkg(fn *ssa.Function) bool {
	if fn.Pkg == nil {
		return false
	}
	p := fn.Pkg.Pkg.Path()
	return v.db.NoEffect[p+".*"] || v.db.NoEffect[shortPkg(p)+".*"]
}

func (v *Verifier) paramNames(fc *FuncContract, sig *types.Signature, callee *ssa.Function) []string {
	var names []string
	if callee != nil && len(callee.Params) > 0 {
		for _, p := range callee.Params {
			names = append(names, p.Name())
		}
		return names
	}
	// from the written signature "(r io.Reader, buf []byte) (n int, err error)"
	if fc.Sig != "" {
		j := matchParen(fc.Sig, 0)
		if j > 0 {
			bs, _ := parseBindersLoose(fc.Sig[1:j])
			if sig.Recv() != nil {
				names = append(names, "self")
			}
			for _, b := range bs {
				names = append(names, b)
			}
			if fc.Returns == nil {
				rest := strings.TrimSpace(fc.Sig[j+1:])
				if strings.HasPrefix(rest, "(") {
					rb, _ := parseBindersLoose(rest[1:matchParen(rest, 0)])
					fc.Returns = rb
				}
			}
			return names
		}
	}
	if sig.Recv() != nil {
		names = append(names, "self")
	}
	for i := 0; i < sig.Params().Len(); i++ {
		names = append(names, sig.Params().At(i).Name())
	}
	return names
}

// parseBindersLoose extracts just the names from "a T, b, c U".
func parseBindersLoose(s string) ([]string, error) {
	var out []string
	for _, part := range splitTop(s, ',') {
		f := strings.Fields(strings.TrimSpace(part))
		if len(f) > 0 {
			out = append(out, f[0])
		}
	}
	return out, nil
}

func (v *Verifier) ifaceMethodByEmbedding(it types.Type, method string) *FuncContract {
	// any declared interface contract whose interface type is implemented by `it` and has the method
	for key, fc := range v.db.IfaceMethods {
		parts := strings.SplitN(key, ".", 2)
		if parts[1] != method {
			continue
		}
		// find the interface type by name in any package
		for _, sp := range v.prog.AllPackages() {
			if tn, ok := sp.Pkg.Scope().Lookup(parts[0]).(*types.TypeName); ok {
				if iface, ok := tn.Type().Underlying().(*types.Interface); ok {
					if types.Implements(it, iface) || types.AssignableTo(it, tn.Type()) {
						return fc
					}
				}
			}
		}
	}
	return nil
}

// ---------- ghost fields ----------

func (v *Verifier) ghostField(t types.Type, name string) *GhostField {
	tn := ""
	switch x := t.(type) {
	case *types.Named:
		tn = x.Obj().Name()
	case *types.Pointer:
		if n, ok := x.Elem().(*types.Named); ok {
			tn = n.Obj().Name()
		}
	}
	if tn == "" {
		return nil
	}
	if gf, ok := v.db.Ghost[tn+"."+name]; ok {
		return gf
	}
	if alias, ok := v.db.GhostAlias[tn]; ok {
		if gf, ok := v.db.Ghost[alias+"."+name]; ok {
			return gf
		}
	}
	// a value of another interface type (io.Reader, io.Writer) denotes the same object: ghost fields
	// declared on an interface owner apply to every interface-typed view of it
	if types.IsInterface(t) {
		for _, gf := range v.db.Ghost {
			if gf.Name == name {
				return gf
			}
		}
	}
	return nil
}

// ghostOwner: ghost state is keyed by interface values; a pointer (e.g. *bytes.Reader) denotes
// the interface value that boxes it.
func (e *Exec) ghostOwner(s *State, owner Value, ot types.Type) *Node {
	on := owner.(*Node)
	if on.Sort == "Iface" {
		return on
	}
	return e.box(s, on, ot)
}

// hasOwnGhost: ghost fields are declared on the struct type this pointer type points to.
func (v *Verifier) hasOwnGhost(ptrT types.Type) bool {
	pt, ok := ptrT.Underlying().(*types.Pointer)
	if !ok {
		return false
	}
	n, ok := pt.Elem().(*types.Named)
	if !ok {
		return false
	}
	for _, gf := range v.db.Ghost {
		if gf.Owner == n.Obj().Name() {
			return true
		}
	}
	return false
}

func ghostHeapName(gf *GhostField) string { return "G:" + gf.Owner + "." + gf.Name }

func (v *Verifier) ghostImmutable(heap string) bool { return false }

// immutableHeap: heaps of fields declared immutable are not havocked by calls without contract.
func (v *Verifier) immutableHeap(heap string) bool {
	if !strings.HasPrefix(heap, "H:") {
		return false
	}
	rest := heap[2:]
	for _, d := range v.db.Immutable {
		pfx := v.heapPkgName(d.PkgPath) + "." + d.TypeName + "."
		if strings.HasPrefix(rest, pfx) {
			f := rest[len(pfx):]
			for _, g := range d.Fields {
				if f == g || strings.HasPrefix(f, g+".") || strings.HasPrefix(f, g+"#") {
					return true
				}
			}
		}
	}
	return false
}

// uncoveredRegions: every function of the monitor's package that locks the monitor's mutex must be
// under contract (so that its regions are verified); returns the keys of those that are not.
func (v *Verifier) uncoveredRegions(prop string) []string {
	var out []string
	for _, m := range v.db.Monitors {
		if prop != "" && !hasProp(m.Props, prop) {
			continue
		}
		sp := v.spkgs[m.PkgPath]
		if sp == nil {
			continue
		}
		for _, f := range v.allFuncs(sp) {
			if f.Blocks == nil {
				continue
			}
			locks := false
			for _, b := range f.Blocks {
				for _, ins := range b.Instrs {
					c, ok := ins.(*ssa.Call)
					if !ok {
						continue
					}
					cf, ok := c.Call.Value.(*ssa.Function)
					if !ok || mutexOp(cf.String()) == "" || len(c.Call.Args) == 0 {
						continue
					}
					fa, ok := c.Call.Args[0].(*ssa.FieldAddr)
					if !ok {
						continue
					}
					pt := derefType(fa.X.Type())
					n, ok := pt.(*types.Named)
					if !ok || n.Obj().Name() != m.TypeName || n.Obj().Pkg() == nil || n.Obj().Pkg().Path() != m.PkgPath {
						continue
					}
					if pt.Underlying().(*types.Struct).Field(fa.Field).Name() == m.MutexField {
						locks = true
					}
				}
			}
			if !locks {
				continue
			}
			key := v.contractKeyFor(f)
			if fc, ok := v.db.Funcs[key]; !ok || fc.Trusted {
				out = append(out, fmt.Sprintf("monitor %s.%s: region in %s is not under contract", m.TypeName, m.MutexField, strings.TrimPrefix(key, m.PkgPath+".")))
			}
		}
	}
	sort.Strings(out)
	return out
}

func (v *Verifier) allFuncs(sp *ssa.Package) []*ssa.Function {
	var fns []*ssa.Function
	seen := map[*ssa.Function]bool{}
	var add func(f *ssa.Function)
	add = func(f *ssa.Function) {
		if f == nil || seen[f] {
			return
		}
		seen[f] = true
		fns = append(fns, f)
		for _, a := range f.AnonFuncs {
			add(a)
		}
	}
	var names []string
	for n := range sp.Members {
		names = append(names, n)
	}
	sort.Strings(names)
	for _, n := range names {
		switch m := sp.Members[n].(type) {
		case *ssa.Function:
			add(m)
		case *ssa.Type:
			for _, t := range []types.Type{m.Type(), types.NewPointer(m.Type())} {
				ms := v.prog.MethodSets.MethodSet(t)
				for i := 0; i < ms.Len(); i++ {
					if f := v.prog.MethodValue(ms.At(i)); f != nil && f.Pkg == sp {
						add(f)
					}
				}
			}
		}
	}
	return fns
}

func (v *Verifier) checkNonNilGlobals() []string {
	var bad []string
	for pkgPath, sp := range v.spkgs {
		for _, f := range v.allFuncs(sp) {
			if f.Blocks == nil || f.Name() == "init" {
				continue
			}
			for _, b := range f.Blocks {
				for _, ins := range b.Instrs {
					if st, ok := ins.(*ssa.Store); ok {
						if g, ok := st.Addr.(*ssa.Global); ok && v.db.NonNil[pkgPath+"."+g.Name()] {
							bad = append(bad, fmt.Sprintf("%s is declared nonnil but assigned in %s", g.Name(), f.Name()))
						}
					}
				}
			}
		}
	}
	return bad
}

// checkImmutable: syntactic side condition — a declared-immutable field is stored to only
// (a) through a fresh allocation of the same function (composite literal under construction) or
// (b) inside a declared writer function. Returns human-readable violations.
func (v *Verifier) checkImmutable() []string {
	var bad []string
	bad = append(bad, v.checkNonNilGlobals()...)
	bad = append(bad, v.checkMapInvAliasing()...)
	for _, d := range v.db.Immutable {
		sp := v.spkgs[d.PkgPath]
		if sp == nil {
			continue
		}
		isField := map[string]bool{}
		for _, f := range d.Fields {
			isField[f] = true
		}
		var fns []*ssa.Function
		var add func(f *ssa.Function)
		add = func(f *ssa.Function) {
			fns = append(fns, f)
			for _, a := range f.AnonFuncs {
				add(a)
			}
		}
		for _, m := range sp.Members {
			if f, ok := m.(*ssa.Function); ok {
				add(f)
			}
			if tn, ok := m.(*ssa.Type); ok {
				for _, t := range []types.Type{tn.Type(), types.NewPointer(tn.Type())} {
					ms := v.prog.MethodSets.MethodSet(t)
					for i := 0; i < ms.Len(); i++ {
						if f := v.prog.MethodValue(ms.At(i)); f != nil && f.Pkg == sp {
							add(f)
						}
					}
				}
			}
		}
		seen := map[*ssa.Function]bool{}
		for _, f := range fns {
			if seen[f] || f.Blocks == nil {
				continue
			}
			seen[f] = true
			key := strings.TrimPrefix(v.contractKeyFor(f), d.PkgPath+".")
			writer := false
			for _, w := range d.Writers {
				if w == key {
					writer = true
				}
			}
			for _, b := range f.Blocks {
				for _, ins := range b.Instrs {
					st, ok := ins.(*ssa.Store)
					if !ok {
						continue
					}
					fa, ok := st.Addr.(*ssa.FieldAddr)
					if !ok {
						continue
					}
					pt := derefType(fa.X.Type())
					n, ok := pt.(*types.Named)
					if !ok || n.Obj().Name() != d.TypeName || n.Obj().Pkg() == nil || n.Obj().Pkg().Path() != d.PkgPath {
						continue
					}
					fname := pt.Underlying().(*types.Struct).Field(fa.Field).Name()
					if !isField[fname] {
						continue
					}
					if _, fresh := fa.X.(*ssa.Alloc); fresh || writer {
						continue
					}
					bad = append(bad, fmt.Sprintf("%s.%s is declared immutable but stored to in %s (%s)", d.TypeName, fname, key, v.fset.Position(st.Pos())))
				}
			}
		}
	}
	return bad
}

func (e *Exec) ghostHeapSort(gf *GhostField, ownerSort string) string {
	return arraySort(ownerSort, e.ghostValSort(gf))
}

func (e *Exec) ghostValSort(gf *GhostField) string {
	switch gf.Type {
	case "int":
		return e.mode.idxSort()
	case "bool":
		return "Bool"
	case "[]byte":
		return arraySort(e.mode.idxSort(), e.mode.intSort(types.Typ[types.Uint8]))
	case "Z":
		return "Int"
	case "ref":
		return RefSort
	case "string":
		return e.mode.leafSort(types.Typ[types.String])
	}
	panic("unsupported ghost field type " + gf.Type)
}

func (c *SpecCtx) ghostFieldRead(owner Value, ot types.Type, gf *GhostField) (Value, types.Type) {
	e := c.e
	on := e.ghostOwner(c.st, owner, ot)
	name := ghostHeapName(gf)
	h := e.heap(c.st, name, e.ghostHeapSort(gf, "Iface"))
	v := Select(h, on)
	switch gf.Type {
	case "int":
		if e.mode == ModeInt {
			return v, mathInt // ghost counters are mathematical integers (no wrap-around)
		}
		return v, types.Typ[types.Int]
	case "bool":
		return v, types.Typ[types.Bool]
	case "[]byte":
		return v, &ghostArrT{elem: types.Typ[types.Uint8]}
	case "Z":
		return v, mathInt
	case "ref":
		return v, types.Typ[types.UnsafePointer]
	case "string":
		return v, types.Typ[types.String]
	}
	panic("ghost type")
}

// holdsTarget resolves a `holds x.mu` clause to the object holding the mutex and its monitor.
func (e *Exec) holdsTarget(fc *FuncContract, st *State, vars map[string]specVar, cc *calleeCtx) (*Node, *Monitor) {
	i := strings.LastIndex(fc.Holds, ".")
	if i < 0 {
		e.unsupported("holds %q: expected <object>.<mutex field>", fc.Holds)
	}
	n, err := parseSpec(fc.Holds[:i])
	if err != nil {
		e.unsupported("holds %q: %v", fc.Holds, err)
	}
	var v Value
	var t types.Type
	if cc != nil {
		v, t = e.evalNodeWith(*cc, n, st, st, vars)
	} else {
		ctx := &SpecCtx{e: e, st: st, old: st, vars: map[string]specVar{}, pkg: e.pkgTypes()}
		v, t = ctx.eval(n)
	}
	obj, ok := v.(*Node)
	pt, isPtr := t.Underlying().(*types.Pointer)
	if !ok || !isPtr {
		e.unsupported("holds %q: not a pointer to an object", fc.Holds)
	}
	mon := e.v.monitorFor(pt.Elem(), fc.Holds[i+1:])
	if mon == nil {
		e.unsupported("holds %q: no monitor declared for this mutex", fc.Holds)
	}
	return obj, mon
}

// ---------- verification drivers ----------

type FuncReport struct {
	Key         string
	Obls        []*Obligation
	Abstraction []string
	Unsupported string
	Mode        string
	MissingAnchors []string
}

func (v *Verifier) verifyFunc(fullKey string, fc *FuncContract) (rep *FuncReport) {
	rep = &FuncReport{Key: fullKey}
	if fc.Mode == ModeBV {
		rep.Mode = "bv"
	} else {
		rep.Mode = "int"
	}
	fn := v.funcForKey(fc.PkgPath, fc.Key)
	if fn == nil {
		rep.Unsupported = "anchor-missing: no function for contract key " + fullKey
		return
	}
	defer func() {
		if r := recover(); r != nil {
			if u, ok := r.(unsupportedErr); ok {
				rep.Unsupported = u.msg
				return
			}
			rep.Unsupported = fmt.Sprintf("engine error: %v\n%s", r, trunc(string(debug.Stack()), 3000))
		}
	}()
	nativeStrings = fc.Strings
	defer func() {
		nativeStrings = false
		if rep != nil {
			for _, o := range rep.Obls {
				o.Strings = o.Strings || fc.Strings
			}
		}
	}()
	e := newExec(v, fn, fc, fc.Mode)
	e.funcKey = shortPkg(fc.PkgPath) + "." + fc.Key
	e.props = fc.Props
	e.safety = fc.Safety
	e.bindSites()
	s := e.initialState()
	e.bindParams(s)
	e.entry = s
	e.initGhosts(s)
	for _, p := range fn.Params {
		e.assumeValInv(s, e.regs[p], p.Type())
	}
	st := s.clone()
	for _, r := range fc.Requires {
		st.assume(e.asHyp(func() *Node { return e.evalClause(r, st, s, nil) }))
	}
	for _, ax := range v.db.Axioms {
		st.assume(e.asHyp(func() *Node { return e.evalClause(ax, st, s, nil) }))
	}
	if fc.Holds != "" {
		obj, mon := e.holdsTarget(fc, st, nil, nil)
		st.held = append(st.held, heldMutex{Obj: obj, Key: mon.TypeName + "." + mon.MutexField, Mon: mon, Inherited: true})
	}
	// reachability of the body under the preconditions (vacuity guard)
	e.obls = append(e.obls, &Obligation{Name: e.funcKey + "/cover/requires", Kind: "cover", Goal: tTrue, Hyp: st.pc, Cover: true,
		Func: e.funcKey, Text: "preconditions are satisfiable", Props: fc.Props, Mode: fc.Mode, exec: e, Pos: fn.Pos()})
	rs := fn.Signature.Results()
	for i := 0; i < rs.Len(); i++ {
		e.resultT = append(e.resultT, rs.At(i).Type())
	}
	ret := e.run(st)
	rep.MissingAnchors = e.missingAnchors
	if ret != nil && fc.PerReturn {
		for j, r := range e.retStates {
			e.results = r.vals
			for i, en := range fc.Ensures {
				rst := e.atLastUnlock(r.st)
				g := e.evalClause(en, rst, e.oldState(), nil)
				if g == tTrue {
					continue
				}
				e.obls = append(e.obls, &Obligation{Name: fmt.Sprintf("%s/ensures#%d@return#%d", e.funcKey, i+1, j+1), Kind: "ensures", Goal: g, Hyp: rst.pc,
					Func: e.funcKey, Text: en.Text, Props: unionProps(orProps(en.Props, fc.Props)), Mode: fc.Mode, exec: e, Pos: fn.Pos(), Strings: fc.Strings})
			}
		}
		e.results = nil
		for i := range e.retStates[0].vals {
			e.results = append(e.results, ret.locals[fmt.Sprintf("$ret%d", i)])
		}
	}
	if ret != nil {
		for i, en := range fc.Ensures {
			if fc.PerReturn {
				break
			}
			pst := e.atLastUnlock(ret)
			g := e.evalClause(en, pst, e.oldState(), nil)
			e.obls = append(e.obls, &Obligation{Name: fmt.Sprintf("%s/ensures#%d", e.funcKey, i+1), Kind: "ensures", Goal: g, Hyp: pst.pc,
				Func: e.funcKey, Text: en.Text, Props: unionProps(orProps(en.Props, fc.Props)), Mode: fc.Mode, exec: e, Pos: fn.Pos(), Strings: fc.Strings})
		}
		// the exit must be reachable (must-fail probe on `ensures false`)
		if !fc.NoReturn {
			e.obls = append(e.obls, &Obligation{Name: e.funcKey + "/cover/exit", Kind: "cover", Goal: tTrue, Hyp: ret.pc, Cover: true,
			Func: e.funcKey, Text: "a return is reachable under the contract", Props: fc.Props, Mode: fc.Mode, exec: e, Pos: fn.Pos()})
		}
		if !fc.ModAll {
			e.frameObligations(e.atLastUnlock(ret), s, fc)
		}
	}
	rep.Obls = e.obls
	for k := range e.absLog {
		rep.Abstraction = append(rep.Abstraction, k)
	}
	sort.Strings(rep.Abstraction)
	return
}

func orProps(a, b []string) []string {
	if len(a) > 0 {
		return a
	}
	return b
}

// frameObligations: every heap not named in `modifies` is unchanged on pre-existing objects.
func (e *Exec) frameObligations(ret, entry *State, fc *FuncContract) {
	var names []string
	for k := range ret.heaps {
		names = append(names, k)
	}
	sort.Strings(names)
	allowedWhole := map[string]bool{}
	type fieldMod struct{ ref *Node }
	allowedAt := map[string][]*Node{} // heap name → refs that may change
	allowedSlices := map[string][]*SliceV{}
	for _, m := range fc.Modifies {
		switch {
		case strings.HasPrefix(m, "H:") || strings.HasPrefix(m, "A:") || strings.HasPrefix(m, "G:") || strings.HasPrefix(m, "M:"):
			allowedWhole[m] = true
			if strings.HasPrefix(m, "M:") || strings.HasPrefix(m, "A:") {
				for _, k := range names {
					if strings.HasPrefix(k, m+".") {
						allowedWhole[k] = true
					}
				}
			}
		case strings.HasSuffix(m, "[*]"):
			n, _ := parseSpec(strings.TrimSuffix(m, "[*]"))
			ctx := &SpecCtx{e: e, st: entry, old: entry, vars: map[string]specVar{}, pkg: e.pkgTypes()}
			v, t := ctx.eval(n)
			sl := v.(*SliceV)
			et := t.Underlying().(*types.Slice).Elem()
			for _, li := range e.mode.leaves(et) {
				allowedSlices[heapNameArr(et, li.Path)] = append(allowedSlices[heapNameArr(et, li.Path)], sl)
			}
		case strings.HasPrefix(m, "(*"):
			tn := m[2:strings.Index(m, ")")]
			fld := m[strings.LastIndex(m, ".")+1:]
			t := e.v.lookupType(fc.PkgPath, tn)
			if t != nil {
				pfx := heapNameObj(t, "."+fld)
				for _, k := range names {
					if k == pfx || strings.HasPrefix(k, pfx+".") || strings.HasPrefix(k, pfx+"#") {
						allowedWhole[k] = true
					}
				}
			}
		default:
			i := strings.LastIndex(m, ".")
			n, _ := parseSpec(m[:i])
			fld := m[i+1:]
			ctx := &SpecCtx{e: e, st: entry, old: entry, vars: map[string]specVar{}, pkg: e.pkgTypes()}
			v, t := ctx.eval(n)
			if gf := e.v.ghostField(t, fld); gf != nil {
				allowedAt[ghostHeapName(gf)] = append(allowedAt[ghostHeapName(gf)], e.ghostOwner(entry, v, t))
				continue
			}
			if st, isPtr := structOf(t); st != nil && isPtr {
				pt := t.Underlying().(*types.Pointer).Elem()
				pfx := heapNameObj(pt, "."+fld)
				for _, k := range names {
					if k == pfx || strings.HasPrefix(k, pfx+".") || strings.HasPrefix(k, pfx+"#") {
						allowedAt[k] = append(allowedAt[k], v.(*Node))
					}
				}
			}
		}
	}
	for _, k := range names {
		if allowedWhole[k] {
			continue
		}
		h1 := ret.heaps[k]
		h0, ok := e.oldState().heaps[k]
		if !ok {
			h0 = TS.Const(e.heap0Name(k), h1.Sort)
		}
		if h0 == h1 {
			continue
		}
		ks := arrayKeySort(h1.Sort)
		if strings.HasPrefix(k, "G:") {
			// ghost state: only the byte logs reachable through parameters matter to callers;
			// logs of objects created inside (readers, buffers) are free to change
			var cs []*Node
			for _, p := range e.fn.Params {
				pv, ok := e.regs[p].(*Node)
				if !ok {
					continue
				}
				var key *Node
				if pv.Sort == "Iface" {
					key = pv
				} else if pt, isPtr := p.Type().Underlying().(*types.Pointer); isPtr && pv.Sort == RefSort {
					if n, ok := pt.Elem().(*types.Named); ok {
						if _, like := e.v.db.GhostAlias[n.Obj().Name()]; like {
							key = e.box(entry.clone(), pv, p.Type())
						}
					}
				}
				if key == nil {
					continue
				}
				skip := false
				for _, a := range allowedAt[k] {
					if a == key {
						skip = true
					}
				}
				if !skip {
					cs = append(cs, Eq(Select(h1, key), Select(h0, key)))
				}
			}
			if len(cs) > 0 {
				e.obls = append(e.obls, &Obligation{Name: fmt.Sprintf("%s/frame/%s", e.funcKey, k), Kind: "frame", Goal: And(cs...), Hyp: ret.pc,
					Func: e.funcKey, Text: "ghost byte logs of the parameters are modified only as declared: " + k, Props: fc.Props, Mode: fc.Mode, exec: e, Pos: e.fn.Pos()})
			}
			continue
		}
		r := BoundVar("r!f", ks)
		var except []*Node
		for _, a := range allowedAt[k] {
			except = append(except, Eq(r, a))
		}
		var pre *Node = tTrue
		if ks == RefSort && !strings.HasPrefix(k, "G:") {
			pre = And(App("<=", "Bool", IntLit(0), r), App("<", "Bool", r, e.allocTerm(entry)))
		}
		var body *Node
		if sls := allowedSlices[k]; len(sls) > 0 {
			i := BoundVar("i!f", e.mode.idxSort())
			var inWin []*Node
			for _, sl := range sls {
				inWin = append(inWin, And(Eq(r, sl.Ref), e.ile(sl.Off, i), e.ilt(i, e.iadd(sl.Off, sl.Len))))
			}
			body = Forall([]*Node{r, i}, Implies(And(pre, Not(Or(inWin...))), Eq(Select(Select(h1, r), i), Select(Select(h0, r), i))))
		} else {
			body = Forall([]*Node{r}, Implies(And(pre, Not(Or(except...))), Eq(Select(h1, r), Select(h0, r))))
		}
		e.obls = append(e.obls, &Obligation{Name: fmt.Sprintf("%s/frame/%s", e.funcKey, k), Kind: "frame", Goal: body, Hyp: ret.pc,
			Func: e.funcKey, Text: "only the declared locations are modified: " + k, Props: fc.Props, Mode: fc.Mode, exec: e, Pos: e.fn.Pos()})
	}
}

func (e *Exec) initGhosts(s *State) {
	e.ghostT = map[string]types.Type{}
	if e.fc == nil {
		return
	}
	for _, g := range e.fc.Ghosts {
		// "var name type"
		f := strings.Fields(g)
		if len(f) == 3 && f[0] == "var" {
			ctx := &SpecCtx{e: e, st: s, old: s, vars: map[string]specVar{}, pkg: e.pkgTypes()}
			t := ctx.resolveTypeName(f[2])
			e.ghostT[f[1]] = t
			if g, ok := t.(*ghostArrT); ok {
				s.ghost[f[1]] = TS.Fresh("ghost_"+f[1], arraySort(e.mode.idxSort(), e.mode.intSort(g.elem)))
			} else {
				s.ghost[f[1]] = e.zeroValue(t)
			}
		}
	}
}

// verifyRely: the transitions of a monitor relate the state a thread last saw to the state it sees
// after other threads ran (assumeRely). That is justified only if each transition is reflexive and
// transitive; both are checked here over three arbitrary states of the whole heap.
func (v *Verifier) verifyRely(m *Monitor) (rep *FuncReport) {
	rep = &FuncReport{Key: shortPkg(m.PkgPath) + ".rely:" + m.TypeName + "." + m.MutexField, Mode: "int"}
	defer func() {
		if r := recover(); r != nil {
			if u, ok := r.(unsupportedErr); ok {
				rep.Unsupported = u.msg
				return
			}
			rep.Unsupported = fmt.Sprintf("engine error: %v", r)
		}
	}()
	e := newExec(v, nil, nil, ModeInt)
	e.funcKey = rep.Key
	e.props = m.Props
	e.lemmaPkg = v.pkgByPath(m.PkgPath)
	objT := v.lookupType(m.PkgPath, m.TypeName)
	if objT == nil {
		panic(unsupportedErr{"rely check: unknown monitor type " + m.TypeName})
	}
	mk := func() *State {
		s := e.initialState()
		epochCounter++
		s.epoch = epochCounter
		return s
	}
	a, b, c := mk(), mk(), mk()
	// one allocation frontier: the three states talk about the same objects
	b.allocBase, b.allocN = a.allocBase, a.allocN
	c.allocBase, c.allocN = a.allocBase, a.allocN
	e.entry = a
	obj := e.freshValue(a, "mon_obj", types.NewPointer(objT)).(*Node)
	a.assume(Not(Eq(obj, IntLit(0))))
	vars := map[string]specVar{"s": {obj, types.NewPointer(objT)}, "self": {obj, types.NewPointer(objT)}}
	cc := calleeCtx{v.pkgByPath(m.PkgPath)}
	for i, tr := range m.Transitions {
		refl := cc.evalWith(e, tr, a, a, vars)
		e.obls = append(e.obls, &Obligation{Name: fmt.Sprintf("%s/transition#%d/reflexive", rep.Key, i+1), Kind: "rely", Goal: refl, Hyp: a.pc,
			Func: rep.Key, Text: "reflexive: " + tr.Text, Props: m.Props, Mode: ModeInt, exec: e})
		ab := e.asHyp(func() *Node { return cc.evalWith(e, tr, b, a, vars) })
		bc := e.asHyp(func() *Node { return cc.evalWith(e, tr, c, b, vars) })
		ac := cc.evalWith(e, tr, c, a, vars)
		hyp := And(a.pc, b.pc, c.pc, ab, bc)
		e.obls = append(e.obls, &Obligation{Name: fmt.Sprintf("%s/transition#%d/transitive", rep.Key, i+1), Kind: "rely", Goal: ac, Hyp: hyp,
			Func: rep.Key, Text: "transitive: " + tr.Text, Props: m.Props, Mode: ModeInt, exec: e})
	}
	rep.Obls = e.obls
	return
}

// verifyLemma: pure SMT obligation over predicates and pure functions.
func (v *Verifier) verifyLemma(l *Lemma) (rep *FuncReport) {
	rep = &FuncReport{Key: shortPkg(l.PkgPath) + ".lemma:" + l.Name}
	defer func() {
		if r := recover(); r != nil {
			if u, ok := r.(unsupportedErr); ok {
				rep.Unsupported = u.msg
				return
			}
			rep.Unsupported = fmt.Sprintf("engine error: %v\n%s", r, trunc(string(debug.Stack()), 3000))
		}
	}()
	nativeStrings = l.Strings
	defer func() {
		nativeStrings = false
		for _, o := range rep.Obls {
			o.Strings = o.Strings || l.Strings
		}
	}()
	e := newExec(v, nil, nil, l.Mode)
	e.funcKey = rep.Key
	e.props = l.Props
	e.lemmaPkg = v.pkgByPath(l.PkgPath)
	s := e.initialState()
	e.entry = s
	vars := map[string]specVar{}
	ctx0 := &SpecCtx{e: e, st: s, old: s, vars: map[string]specVar{}, pkg: e.lemmaPkg}
	for _, b := range l.Params {
		t := ctx0.resolveTypeName(b.Type)
		if t == nil {
			panic(unsupportedErr{"lemma " + l.Name + ": unknown type " + b.Type})
		}
		if g, ok := t.(*ghostArrT); ok {
			vars[b.Name] = specVar{TS.Fresh("l_"+b.Name, arraySort(e.mode.idxSort(), e.mode.intSort(g.elem))), t}
			continue
		}
		vars[b.Name] = specVar{e.freshValue(s, "l_"+b.Name, t), t}
	}
	st := s.clone()
	for _, r := range l.Requires {
		st.assume(e.asHyp(func() *Node { return e.evalClause(r, st, s, vars) }))
	}
	e.obls = append(e.obls, &Obligation{Name: rep.Key + "/cover/requires", Kind: "cover", Goal: tTrue, Hyp: st.pc, Cover: true,
		Func: rep.Key, Text: "lemma hypotheses are satisfiable", Props: l.Props, Mode: l.Mode, exec: e})
	for i, en := range l.Ensures {
		g := e.evalClause(en, st, s, vars)
		e.obls = append(e.obls, &Obligation{Name: fmt.Sprintf("%s/ensures#%d", rep.Key, i+1), Kind: "lemma", Goal: g, Hyp: st.pc,
			Func: rep.Key, Text: en.Text, Props: l.Props, Mode: l.Mode, exec: e, Strings: l.Strings})
	}
	rep.Obls = e.obls
	for k := range e.absLog {
		rep.Abstraction = append(rep.Abstraction, k)
	}
	return
}
