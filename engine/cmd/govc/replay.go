package main

// Replay of solver models against the real code (go test -overlay, nothing written to /repo).

import (
	"context"
	"encoding/json"
	"fmt"
	"go/types"
	"math/big"
	"os"
	"os/exec"
	"path/filepath"
	"regexp"
	"strings"
	"time"

	"golang.org/x/tools/go/ssa"
)

var tUint8 = types.Typ[types.Uint8]

type ReplayInfo struct {
	Property   string            `json:"property"`
	Obligation string            `json:"obligation"`
	Kind       string            `json:"kind"`
	Clause     string            `json:"clause"`
	SourcePos  string            `json:"source_pos"`
	Solver     []SolverRun       `json:"solver_runs"`
	Model      map[string]string `json:"model,omitempty"`
	ReplayTest string            `json:"replay_test,omitempty"`
	ReplayOut  string            `json:"replay_output,omitempty"`
	Confirmed  bool              `json:"confirmed"`
	Reason     string            `json:"reason"`
	SMT2       string            `json:"smt2,omitempty"`
}

var modelRe = regexp.MustCompile(`\(define-fun\s+(\S+)\s+\(\)\s+(\([^()]*\)|\S+)\s+([^\n]*?)\)\s*$`)

// parseModel extracts scalar constants from a (get-model) answer.
func parseModel(s string) map[string]string {
	out := map[string]string{}
	// join multi-line define-funs
	s = strings.ReplaceAll(s, "\n    ", " ")
	for _, l := range strings.Split(s, "\n") {
		l = strings.TrimSpace(l)
		if m := modelRe.FindStringSubmatch(l); m != nil {
			out[m[1]] = strings.TrimSpace(m[3])
		}
	}
	return out
}

func modelInt(val string) (*big.Int, bool) {
	val = strings.TrimSpace(val)
	v := new(big.Int)
	switch {
	case strings.HasPrefix(val, "#x"):
		_, ok := v.SetString(val[2:], 16)
		return v, ok
	case strings.HasPrefix(val, "#b"):
		_, ok := v.SetString(val[2:], 2)
		return v, ok
	case strings.HasPrefix(val, "(- "):
		_, ok := v.SetString(strings.TrimSuffix(val[3:], ")"), 10)
		v.Neg(v)
		return v, ok
	case strings.HasPrefix(val, "(_ bv"):
		f := strings.Fields(val[5:])
		_, ok := v.SetString(f[0], 10)
		return v, ok
	}
	_, ok := v.SetString(val, 10)
	return v, ok
}

func buildReplay(v *Verifier, prop string, o *Obligation) *ReplayInfo {
	ri := &ReplayInfo{Property: prop, Obligation: o.Name, Kind: o.Kind, Clause: o.Text, Reason: "no-failing-input-found"}
	if o.Pos.IsValid() {
		ri.SourcePos = v.fset.Position(o.Pos).String()
	}
	if o.Result != nil {
		ri.Solver = o.Result.Runs
		for i := range ri.Solver {
			ri.Solver[i].Output = trunc(ri.Solver[i].Output, 2000)
		}
		if o.Result.Model != "" {
			ri.Model = parseModel(o.Result.Model)
		}
	}
	sc := smtPrelude + Script(o.asserts(), "", true)
	if len(sc) < 200000 {
		ri.SMT2 = sc
	}
	replayFromIndex(v, o, ri)
	if !ri.Confirmed && ri.Model != nil && o.exec != nil && o.exec.fn != nil {
		func() {
			defer func() {
				if r := recover(); r != nil {
					ri.ReplayOut += fmt.Sprintf("\nreplay generator error: %v", r)
				}
			}()
			replayScalar(v, o, ri)
		}()
	}
	return ri
}

func goLit(t types.Type, v *big.Int) string {
	w, signed, _ := intInfo(t)
	x := new(big.Int).Set(v)
	if signed {
		// model values in bv mode are unsigned: wrap
		if x.Cmp(new(big.Int).Lsh(big.NewInt(1), uint(w-1))) >= 0 {
			x.Sub(x, pow2(w))
		}
	}
	return fmt.Sprintf("%s(%s)", types.TypeString(t, func(*types.Package) string { return "" }), x.String())
}

// replayScalar: for a package-level function whose parameters and results are all integers or
// booleans: call the real function on the model's inputs and re-evaluate the violated clause on the
// concrete inputs and the actual outputs.
func replayScalar(v *Verifier, o *Obligation, ri *ReplayInfo) {
	e := o.exec
	fn := e.fn
	if fn.Parent() != nil || fn.Signature.Recv() != nil || o.Kind != "ensures" {
		return
	}
	scalar := func(t types.Type) bool {
		_, _, ok := intInfo(t)
		return ok || isBool(t)
	}
	var argLits []string
	concrete := map[string]*big.Int{}
	for _, p := range fn.Params {
		if !scalar(p.Type()) {
			return
		}
		pv, ok := e.params[p.Name()].(*Node)
		if !ok {
			return
		}
		mv, ok := ri.Model[pv.Op]
		if !ok {
			mv = "0"
		}
		if isBool(p.Type()) {
			argLits = append(argLits, mv)
			continue
		}
		bi, ok := modelInt(mv)
		if !ok {
			return
		}
		concrete[p.Name()] = bi
		argLits = append(argLits, goLit(p.Type(), bi))
	}
	rs := fn.Signature.Results()
	for i := 0; i < rs.Len(); i++ {
		if !scalar(rs.At(i).Type()) {
			return
		}
	}
	pkgDir := filepath.Dir(v.fset.Position(fn.Pos()).Filename)
	var sb strings.Builder
	fmt.Fprintf(&sb, "package %s\n\nimport (\n\t\"fmt\"\n\t\"testing\"\n)\n\n", fn.Pkg.Pkg.Name())
	fmt.Fprintf(&sb, "func TestVPReplay(t *testing.T) {\n")
	var outs []string
	for i := 0; i < rs.Len(); i++ {
		outs = append(outs, fmt.Sprintf("r%d", i))
	}
	if len(outs) > 0 {
		fmt.Fprintf(&sb, "\t%s := %s(%s)\n", strings.Join(outs, ", "), fn.Name(), strings.Join(argLits, ", "))
		for _, r := range outs {
			fmt.Fprintf(&sb, "\tfmt.Printf(\"VPRESULT %%v\\n\", %s)\n", r)
		}
	} else {
		fmt.Fprintf(&sb, "\t%s(%s)\n", fn.Name(), strings.Join(argLits, ", "))
	}
	fmt.Fprintf(&sb, "}\n")
	ri.ReplayTest = sb.String()
	out, err := runOverlayTest(v.repo, pkgDir, "zz_vp_replay_test.go", sb.String(), "^TestVPReplay$")
	ri.ReplayOut = trunc(out, 4000)
	if err != nil && !strings.Contains(out, "VPRESULT") {
		if strings.Contains(out, "panic:") {
			ri.Confirmed = true
			ri.Reason = "confirmed: the real function panics on the model input"
		}
		return
	}
	var actual []string
	for _, l := range strings.Split(out, "\n") {
		if strings.HasPrefix(l, "VPRESULT ") {
			actual = append(actual, strings.TrimPrefix(l, "VPRESULT "))
		}
	}
	if len(actual) != rs.Len() {
		return
	}
	// ground re-evaluation of the clause
	e2 := newExec(v, fn, e.fc, e.mode)
	e2.funcKey = e.funcKey
	s := e2.initialState()
	e2.entry = s
	e2.ghostT = map[string]types.Type{}
	for i, p := range fn.Params {
		_ = i
		if isBool(p.Type()) {
			if argLits[i] == "true" {
				e2.params[p.Name()] = tTrue
			} else {
				e2.params[p.Name()] = tFalse
			}
		} else {
			x := concrete[p.Name()]
			w, signed, _ := intInfo(p.Type())
			if signed && x.Cmp(new(big.Int).Lsh(big.NewInt(1), uint(w-1))) >= 0 {
				x = new(big.Int).Sub(x, pow2(w))
			}
			e2.params[p.Name()] = e2.ar.lit(x, p.Type())
		}
		e2.paramT[p.Name()] = p.Type()
	}
	for i := 0; i < rs.Len(); i++ {
		t := rs.At(i).Type()
		e2.resultT = append(e2.resultT, t)
		if isBool(t) {
			if actual[i] == "true" {
				e2.results = append(e2.results, tTrue)
			} else {
				e2.results = append(e2.results, tFalse)
			}
			continue
		}
		bi, _ := new(big.Int).SetString(actual[i], 10)
		e2.results = append(e2.results, e2.ar.lit(bi, t))
	}
	var clause *Clause
	for i, c := range e.fc.Ensures {
		if strings.HasSuffix(o.Name, fmt.Sprintf("/ensures#%d", i+1)) || strings.HasSuffix(o.Name, fmt.Sprintf("/ensures#%d/restricted", i+1)) {
			clause = c
		}
	}
	if clause == nil {
		return
	}
	g := e2.evalClause(clause, s, s, nil)
	r := Solve(smtPrelude+Script([]*Node{s.pc, Not(g)}, "", false), 20, false, false)
	ri.ReplayOut += fmt.Sprintf("\nclause %q on inputs %v and actual outputs %v: negation is %s", clause.Text, argLits, actual, r.Verdict)
	if r.Verdict == "sat" {
		ri.Confirmed = true
		ri.Reason = fmt.Sprintf("confirmed: %s(%s) returned %v, which violates %q", fn.Name(), strings.Join(argLits, ", "), actual, clause.Text)
	}
}

// runOverlayTest injects a test file into pkgDir via -overlay and runs it.
func runOverlayTest(repo, pkgDir, fileName, src, run string) (string, error) {
	tmp := scratchFile("_test.go")
	os.WriteFile(tmp, []byte(src), 0o644)
	defer os.Remove(tmp)
	ov := map[string]map[string]string{"Replace": {filepath.Join(pkgDir, fileName): tmp}}
	ovf := scratchFile(".json")
	b, _ := json.Marshal(ov)
	os.WriteFile(ovf, b, 0o644)
	defer os.Remove(ovf)
	rel, _ := filepath.Rel(repo, pkgDir)
	ctx, cancel := context.WithTimeout(context.Background(), 180*time.Second)
	defer cancel()
	cmd := exec.CommandContext(ctx, "go", "test", "-v", "-overlay", ovf, "-vet=off", "-count=1", "-timeout", "60s", "-run", run, "./"+rel)
	cmd.Dir = repo
	cmd.Env = cleanEnv()
	out, err := cmd.CombinedOutput()
	return string(out), err
}

func cmdReplay(args []string) int {
	if len(args) < 1 {
		fmt.Fprintln(os.Stderr, "usage: govc replay <file>")
		return 2
	}
	b, err := os.ReadFile(args[0])
	if err != nil {
		fmt.Fprintln(os.Stderr, err)
		return 2
	}
	var ri ReplayInfo
	if err := json.Unmarshal(b, &ri); err != nil {
		fmt.Fprintln(os.Stderr, err)
		return 2
	}
	fmt.Printf("property=%s obligation=%s\nclause: %s\nsource: %s\nreason: %s\n", ri.Property, ri.Obligation, ri.Clause, ri.SourcePos, ri.Reason)
	for _, r := range ri.Solver {
		fmt.Printf("  %s: %s (%.2fs)\n", r.Solver, r.Result, r.Seconds)
	}
	if ri.ReplayTest != "" {
		fmt.Println("--- replay test ---")
		fmt.Println(ri.ReplayTest)
		fmt.Println("--- recorded output ---")
		fmt.Println(ri.ReplayOut)
	}
	if ri.Confirmed {
		return 1
	}
	return 0
}

var _ = ssa.NaiveForm

type replayEntry struct {
	Match string `json:"match"`
	Pkg   string `json:"pkg"`
	File  string `json:"file"`
	Run   string `json:"run"`
}

// replayFromIndex: scenario replays committed under /verif/replays, keyed by obligation name.
// The scenario test fails (and prints VIOLATION) on the real code iff the behaviour the obligation
// forbids is observable.
func replayFromIndex(v *Verifier, o *Obligation, ri *ReplayInfo) {
	b, err := os.ReadFile(filepath.Join(verifDir, "replays", "index.json"))
	if err != nil {
		return
	}
	var idx []replayEntry
	if json.Unmarshal(b, &idx) != nil {
		return
	}
	for _, en := range idx {
		if !strings.Contains(o.Name, en.Match) {
			continue
		}
		src, err := os.ReadFile(filepath.Join(verifDir, "replays", en.File))
		if err != nil {
			continue
		}
		out, rerr := runOverlayTest(v.repo, filepath.Join(v.repo, en.Pkg), "zz_vp_replay_test.go", string(src), en.Run)
		ri.ReplayTest = "replays/" + en.File + " -run " + en.Run
		ri.ReplayOut = trunc(out, 4000)
		if rerr != nil && strings.Contains(out, "VIOLATION") {
			ri.Confirmed = true
			ri.Reason = "confirmed by scenario replay " + en.File + " " + en.Run
		}
		return
	}
}

// runCanaries re-runs the committed scenario replays of a property on the current tree.
func runCanaries(v *Verifier, prop string, res *propResult) []map[string]interface{} {
	b, err := os.ReadFile(filepath.Join(verifDir, "replays", "index.json"))
	if err != nil {
		return nil
	}
	var idx []replayEntry
	if json.Unmarshal(b, &idx) != nil {
		return nil
	}
	seen := map[string]bool{}
	var out []map[string]interface{}
	open := map[string]bool{} // replays of findings that are recorded, not repaired: expected to fail
	for _, kf := range loadKnownFindings() {
		if kf.Replay != "" {
			open[filepath.Base(strings.Fields(kf.Replay)[0])] = true
		}
	}
	for _, en := range idx {
		if !strings.HasPrefix(en.File, prop+"_") || seen[en.File+en.Run] || open[en.File] {
			continue
		}
		seen[en.File+en.Run] = true
		src, err := os.ReadFile(filepath.Join(verifDir, "replays", en.File))
		if err != nil {
			continue
		}
		o, rerr := runOverlayTest(v.repo, filepath.Join(v.repo, en.Pkg), "zz_vp_replay_test.go", string(src), en.Run)
		failed := rerr != nil && strings.Contains(o, "VIOLATION")
		out = append(out, map[string]interface{}{"replay": en.File, "run": en.Run, "violation_reproduced": failed})
		if failed {
			dir := filepath.Join(verifDir, "replays", "out")
			os.MkdirAll(dir, 0o755)
			path := filepath.Join(dir, sanitize(prop+"_canary_"+en.File+"_"+en.Run)+".json")
			ri := &ReplayInfo{Property: prop, Obligation: "canary:" + en.File + ":" + en.Run, Reason: "a repaired defect is observable again on the current tree",
				ReplayTest: "replays/" + en.File + " -run " + en.Run, ReplayOut: trunc(o, 4000), Confirmed: true}
			jb, _ := json.MarshalIndent(ri, "", " ")
			os.WriteFile(path, jb, 0o644)
			res.nViol++
			res.lines = append(res.lines, fmt.Sprintf("VIOLATION property=%s replay=%s obligation=%s", prop, path, ri.Obligation))
		} else if rerr != nil && !strings.Contains(o, "ok  ") {
			res.undecided = append(res.undecided, "canary "+en.File+" "+en.Run+" did not run: "+trunc(o, 300))
		}
	}
	return out
}
