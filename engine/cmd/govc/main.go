package main

import (
	"math/rand"
	"golang.org/x/tools/go/ssa"
	"encoding/json"
	"flag"
	"fmt"
	"os"
	"path/filepath"
	"sort"
	"strconv"
	"strings"
	"sync"
	"time"
)

var verifDir = "/verif"
var repoDir = "/repo"

func main() {
	if len(os.Args) < 2 {
		fmt.Fprintln(os.Stderr, "usage: govc check|dump|replay|selftest ...")
		os.Exit(2)
	}
	if d := os.Getenv("GOVC_VERIF"); d != "" {
		verifDir = d
	}
	if d := os.Getenv("GOVC_REPO"); d != "" {
		repoDir = d
	}
	initTerms()
	initScratch()
	code := 2
	func() {
		defer cleanupScratch()
		switch os.Args[1] {
		case "check":
			code = cmdCheck(os.Args[2:])
		case "dump":
			code = cmdDump(os.Args[2:])
		case "replay":
			code = cmdReplay(os.Args[2:])
		case "selftest":
			code = cmdSelftest(os.Args[2:])
		case "ssa":
			code = cmdSSA(os.Args[2:])
		case "closures":
			code = cmdClosures(os.Args[2:])
		default:
			fmt.Fprintln(os.Stderr, "unknown command", os.Args[1])
		}
	}()
	os.Exit(code)
}

// propUnion: end-to-end properties that are claimed only partially, as the union of the obligation
// families of the properties whose conjunction they rest on (DESIGN.md §4, C01 and C04).
var propUnion = map[string][]string{
	"C01": {"C01", "C19", "C17", "C05", "C02"},
	"C04": {"C04", "C06", "C05", "C19"},
}

func hasProp(ps []string, p string) bool {
	want := []string{p}
	if u, ok := propUnion[p]; ok {
		want = u
	}
	for _, x := range ps {
		for _, w := range want {
			if x == w {
				return true
			}
		}
	}
	return false
}

func contractMentions(fc *FuncContract, p string) bool {
	if hasProp(fc.Props, p) {
		return true
	}
	for _, c := range fc.Ensures {
		if hasProp(c.Props, p) {
			return true
		}
	}
	for _, s := range fc.Sites {
		if hasProp(s.Props, p) {
			return true
		}
		for _, a := range s.Assert {
			if hasProp(a.Props, p) {
				return true
			}
		}
	}
	for _, cs := range fc.LoopInv {
		for _, c := range cs {
			if hasProp(c.Props, p) {
				return true
			}
		}
	}
	return false
}

// collect generates all obligations relevant for property p ("" = all).
func collect(v *Verifier, p string, only string) ([]*FuncReport, []*Obligation) {
	var reps []*FuncReport
	var obls []*Obligation
	monitorProps := func(fc *FuncContract) bool {
		for _, m := range v.db.Monitors {
			if hasProp(m.Props, p) && m.PkgPath == fc.PkgPath && fc.Region {
				return true
			}
		}
		return false
	}
	for _, k := range v.db.sortedFuncKeys() {
		fc := v.db.Funcs[k]
		if fc.NoBody || strings.HasPrefix(fc.Key, "interface:") {
			continue
		}
		if fc.Trusted {
			continue
		}
		if only != "" && !strings.Contains(k, only) {
			continue
		}
		if p != "" && !contractMentions(fc, p) && !monitorProps(fc) {
			continue
		}
		rep := v.verifyFunc(k, fc)
		rep.Obls = splitObligations(rep.Obls)
		reps = append(reps, rep)
		for _, o := range rep.Obls {
			if p == "" || hasProp(o.Props, p) || (o.Kind == "cover" && contractMentions(fc, p) && !strings.Contains(o.Name, "/site:")) {
				obls = append(obls, o)
			}
		}
	}
	// predicates with an `also` part: the consequence must follow from the body (checked with every property)
	var alsoLemmas []*Lemma
	var pnames []string
	for n := range v.db.Preds {
		pnames = append(pnames, n)
	}
	sort.Strings(pnames)
	for _, n := range pnames {
		pr := v.db.Preds[n]
		if pr.Also == nil {
			continue
		}
		props := []string{}
		if p != "" {
			props = []string{p}
		}
		alsoLemmas = append(alsoLemmas, &Lemma{Name: "pred:" + n + "/also", PkgPath: pr.PkgPath, Params: pr.Params, Mode: ModeInt, Props: props,
			Requires: []*Clause{{Text: n + " body", Expr: pr.Body}}, Ensures: []*Clause{{Text: n + " also-part", Expr: pr.Also}}})
	}
	// monitors whose two-state transitions are used as rely conditions: they must be reflexive and
	// transitive (checked over arbitrary states, no code involved)
	for _, m := range v.db.Monitors {
		if len(m.Transitions) == 0 || (p != "" && !hasProp(m.Props, p)) {
			continue
		}
		if only != "" && !strings.Contains("rely:"+m.TypeName, only) {
			continue
		}
		rep := v.verifyRely(m)
		rep.Obls = splitObligations(rep.Obls)
		reps = append(reps, rep)
		obls = append(obls, rep.Obls...)
	}
	for _, l := range append(alsoLemmas, v.db.Lemmas...) {
		if only != "" && !strings.Contains(l.Name, only) {
			continue
		}
		if p != "" && !hasProp(l.Props, p) {
			continue
		}
		rep := v.verifyLemma(l)
		rep.Obls = splitObligations(rep.Obls)
		reps = append(reps, rep)
		obls = append(obls, rep.Obls...)
	}
	return reps, obls
}

// splitGoal: A ==> (B && C) becomes A ==> B, A ==> C (one query per conjunct: quantified and
// non-linear goals that time out as a conjunction are usually immediate one by one).
func splitGoal(g *Node) []*Node {
	switch {
	case g.Op == "and":
		var out []*Node
		for _, a := range g.Args {
			out = append(out, splitGoal(a)...)
		}
		return out
	case g.Op == "=>" && len(g.Args) == 2:
		var out []*Node
		for _, c := range splitGoal(g.Args[1]) {
			out = append(out, Implies(g.Args[0], c))
		}
		return out
	case g.Binders != "" && strings.HasPrefix(g.Op, "forall|"):
		parts := splitGoal(g.Args[0])
		if len(parts) <= 1 {
			return []*Node{g}
		}
		var out []*Node
		for _, c := range parts {
			n := TS.mk(g.Op, "Bool", c)
			n.Binders = g.Binders
			n.bound = g.bound
			out = append(out, n)
		}
		return out
	}
	return []*Node{g}
}

func splitObligations(obls []*Obligation) []*Obligation {
	var out []*Obligation
	for _, o := range obls {
		if o.Cover {
			out = append(out, o)
			continue
		}
		parts := splitGoal(o.Goal)
		if len(parts) <= 1 {
			out = append(out, o)
			continue
		}
		for i, p := range parts {
			c := *o
			c.Goal = p
			c.Name = fmt.Sprintf("%s.%d", o.Name, i+1)
			out = append(out, &c)
		}
	}
	return out
}

func (o *Obligation) asserts() []*Node {
	as := []*Node{o.Hyp}
	if !o.Cover {
		as = append(as, Not(o.Goal))
	}
	as = append(byteAxioms(as), as...)
	// string literal axioms for literals that occur
	if o.exec != nil {
		if ax := o.exec.strAxiomsFor(as); ax != tTrue {
			as = append([]*Node{ax}, as...)
		}
	}
	return as
}

func (e *Exec) strAxiomsFor(as []*Node) *Node {
	if e.fc != nil && e.fc.Strings {
		return tTrue
	}
	present := map[string]bool{}
	for _, c := range freeConsts(as) {
		present[c.Op] = true
	}
	var cs []*Node
	if present["str_empty"] {
		cs = append(cs, Eq(App("slen", "Int", strEmpty()), IntLit(0)))
		if e.mode == ModeBV {
			cs = append(cs, Eq(e.strLen(strEmpty()), e.idx(0)))
		}
	}
	var keys []string
	for k := range strLits {
		keys = append(keys, k)
	}
	sort.Strings(keys)
	for _, k := range keys {
		n := strLits[k]
		if !present[n.Op] {
			continue
		}
		cs = append(cs, Eq(e.strLen(n), e.idx(int64(len(k)))))
		if len(k) <= 64 {
			for i := 0; i < len(k); i++ {
				cs = append(cs, Eq(Select(e.strChars(n), e.idx(int64(i))), e.ar.litI(int64(k[i]), tUint8)))
			}
		}
	}
	// distinct literals are distinct strings
	var lits []*Node
	for _, k := range keys {
		if present[strLits[k].Op] {
			lits = append(lits, strLits[k])
		}
	}
	if present["str_empty"] {
		lits = append(lits, strEmpty())
	}
	if len(lits) > 1 {
		cs = append(cs, App("distinct", "Bool", lits...))
	}
	if present["iface_nil"] {
		cs = append(cs, Eq(App("dyn", "Int", ifaceNil()), IntLit(0)))
	}
	return And(cs...)
}

var noRetry bool

func discharge(obls []*Obligation, timeout int, all bool, workers int) {
	type job struct {
		o      *Obligation
		script string
	}
	var jobs []job
	for _, o := range obls {
		jobs = append(jobs, job{o, smtPrelude + Script(o.asserts(), "", true)})
	}
	var wg sync.WaitGroup
	ch := make(chan job)
	for i := 0; i < workers; i++ {
		wg.Add(1)
		go func() {
			defer wg.Done()
			for j := range ch {
				r := Solve(j.script, timeout, j.o.Strings, all)
				if r.Verdict == "unknown" && !j.o.Cover && !noRetry && os.Getenv("GOVC_NO_RETRY") == "" {
					// solver instability guard: one retry with other seeds and a longer budget before an
					// obligation is reported as undischarged
					r2 := SolveSeeded(j.script, timeout*3, j.o.Strings, 7)
					r2.Runs = append(r.Runs, r2.Runs...)
					r2.Seconds += r.Seconds
					r = r2
				}
				j.o.Result = &r
			}
		}()
	}
	for _, j := range jobs {
		ch <- j
	}
	close(ch)
	wg.Wait()
}

// ok reports whether the obligation is discharged (or, for covers, satisfiable).
func (o *Obligation) ok() bool {
	if o.Result == nil {
		return false
	}
	if o.Cover {
		return o.Result.Verdict != "unsat"
	}
	return o.Result.Verdict == "unsat"
}

type KnownFinding struct {
	Property   string `json:"property"`
	Obligation string `json:"obligation"`
	Witness    string `json:"witness_constraint"`
	WhatFails  string `json:"what_fails"`
	Replay     string `json:"replay,omitempty"`
	Fixed      string `json:"fixed,omitempty"`
}

func loadKnownFindings() []*KnownFinding {
	var out []*KnownFinding
	b, err := os.ReadFile(filepath.Join(verifDir, "known_findings.jsonl"))
	if err != nil {
		return nil
	}
	for _, l := range strings.Split(string(b), "\n") {
		l = strings.TrimSpace(l)
		if l == "" || strings.HasPrefix(l, "#") {
			continue
		}
		var k KnownFinding
		if json.Unmarshal([]byte(l), &k) == nil && k.Fixed == "" && k.Obligation != "" {
			out = append(out, &k)
		}
	}
	return out
}

type evidence struct {
	PropertyID  string                 `json:"property_id"`
	Tier        string                 `json:"tier"`
	Seed        int                    `json:"seed"`
	Level       string                 `json:"level"`
	Coverage    map[string]interface{} `json:"coverage"`
	Assumptions []string               `json:"assumptions"`
	WallS       float64                `json:"wall_s"`
	Violations  int                    `json:"violations"`
}

func cmdCheck(args []string) int {
	fs := flag.NewFlagSet("check", flag.ExitOnError)
	prop := fs.String("property", "", "property id")
	tier := fs.String("tier", "quick", "quick|thorough")
	only := fs.String("only", "", "restrict to contracts containing this substring (debug)")
	verbose := fs.Bool("v", false, "verbose")
	noEvidence := fs.Bool("no-evidence", false, "do not write evidence")
	fs.Parse(args)
	if t := os.Getenv("VERIF_TIER"); t != "" && *tier == "" {
		*tier = t
	}
	seed := 0
	if s := os.Getenv("VERIF_SEED"); s != "" {
		seed, _ = strconv.Atoi(s)
	}
	start := time.Now()
	v, err := loadVerifier(repoDir, nil)
	if err != nil {
		fmt.Fprintln(os.Stderr, "govc: load failed:", err)
		return 2
	}
	v.loadSecs = time.Since(start).Seconds()
	res := runProperty(v, *prop, *tier, *only, seed, *verbose)
	res.wall = time.Since(start).Seconds()
	if !*noEvidence && *only == "" {
		writeEvidence(v, res)
	}
	for _, l := range res.lines {
		fmt.Println(l)
	}
	fmt.Printf("govc: property=%s tier=%s obligations=%d discharged=%d covers=%d known-findings=%d violations=%d undecided=%d wall=%.1fs\n",
		*prop, *tier, res.nObl, res.nDis, res.nCover, res.nKnown, res.nViol, len(res.undecided), res.wall)
	for _, u := range res.undecided {
		fmt.Println("UNDECIDED:", u)
	}
	if res.nViol > 0 {
		return 1
	}
	if len(res.undecided) > 0 {
		return 2
	}
	return 0
}

type propResult struct {
	prop, tier string
	seed       int
	reps       []*FuncReport
	obls       []*Obligation
	lines      []string
	nObl, nDis, nCover, nKnown, nViol int
	undecided  []string
	wall       float64
	selftest   map[string]interface{}
	canaries   []map[string]interface{}
	unreachable []string
	crossChecked int
	bounded    []map[string]interface{}
}

func runProperty(v *Verifier, prop, tier, only string, seed int, verbose bool) *propResult {
	res := &propResult{prop: prop, tier: tier, seed: seed}
	reps, obls := collect(v, prop, only)
	res.reps, res.obls = reps, obls
	for _, u := range v.uncoveredRegions(prop) {
		res.undecided = append(res.undecided, u)
	}
	for _, b := range v.checkImmutable() {
		res.undecided = append(res.undecided, "immutable declaration violated: "+b)
	}
	for _, r := range reps {
		if r.Unsupported != "" {
			res.undecided = append(res.undecided, r.Key+": "+r.Unsupported)
		}
		for _, m := range r.MissingAnchors {
			res.undecided = append(res.undecided, r.Key+": "+m)
		}
	}
	timeout := 10
	all := false
	if tier == "thorough" {
		timeout = 30
	}
	// known findings → restricted variants
	kfs := loadKnownFindings()
	restricted := map[*Obligation]*Obligation{}
	for _, o := range obls {
		for _, kf := range kfs {
			if kf.Obligation == o.Name && (prop == "" || kf.Property == prop) {
				o.Known = kf
				n, err := parseSpec(kf.Witness)
				if err != nil {
					res.undecided = append(res.undecided, "known finding witness does not parse: "+kf.Witness)
					continue
				}
				func() {
					defer func() {
						if r := recover(); r != nil {
							res.undecided = append(res.undecided, fmt.Sprintf("known finding witness for %s: %v", o.Name, r))
						}
					}()
					w := o.exec.evalClause(&Clause{Text: kf.Witness, Expr: n}, o.exec.entry, o.exec.entry, nil)
					ro := *o
					ro.Name = o.Name + "/restricted"
					ro.Hyp = And(o.Hyp, Not(w))
					ro.Known = nil
					restricted[o] = &ro
				}()
			}
		}
	}
	// vacuity guard on path conditions: the hypothesis of an obligation must be satisfiable, else
	// the obligation holds for no reason. thorough: every distinct hypothesis; quick: a seeded sample.
	{
		seenHyp := map[int]bool{}
		var cands []*Obligation
		for _, o := range obls {
			if o.Cover || o.Hyp == nil || seenHyp[o.Hyp.id] {
				continue
			}
			seenHyp[o.Hyp.id] = true
			cands = append(cands, o)
		}
		limit := len(cands)
		if tier != "thorough" && limit > 40 {
			r := rand.New(rand.NewSource(int64(seed) + 17))
			r.Shuffle(len(cands), func(i, j int) { cands[i], cands[j] = cands[j], cands[i] })
			limit = 40
		}
		for _, o := range cands[:limit] {
			c := *o
			c.Name = o.Name + "/hyp-cover"
			c.Kind = "cover"
			c.Cover = true
			c.Goal = tTrue
			c.Text = "path condition of " + o.Name + " is satisfiable"
			c.Known = nil
			obls = append(obls, &c)
		}
		res.obls = obls
	}
	allObls := append([]*Obligation(nil), obls...)
	for _, r := range restricted {
		allObls = append(allObls, r)
	}
	discharge(allObls, timeout, all, 6)
	if tier == "thorough" {
		// cross-check: a seeded sample of obligations is put to every solver (no early exit); a
		// sat/unsat disagreement between solvers is reported
		r := rand.New(rand.NewSource(int64(seed) + 99))
		idx := r.Perm(len(allObls))
		if len(idx) > 150 {
			idx = idx[:150]
		}
		var sample []*Obligation
		for _, i := range idx {
			if !allObls[i].Cover {
				c := *allObls[i]
				sample = append(sample, &c)
			}
		}
		discharge(sample, 10, true, 6)
		res.crossChecked = len(sample)
		for _, o := range sample {
			if o.Result == nil {
				continue
			}
			sawSat, sawUnsat := false, false
			for _, r := range o.Result.Runs {
				if r.Result == "sat" {
					sawSat = true
				}
				if r.Result == "unsat" {
					sawUnsat = true
				}
			}
			if sawSat && sawUnsat {
				res.undecided = append(res.undecided, "solver disagreement on "+o.Name)
			}
		}
	}
	for _, o := range obls {
		if o.Result != nil && o.Result.allErrors() {
			res.undecided = append(res.undecided, "solver error on "+o.Name+": "+trunc(o.Result.Runs[0].Output, 200))
			continue
		}
		if o.Cover {
			res.nCover++
			if !o.ok() {
				if strings.HasSuffix(o.Name, "/hyp-cover") {
					// an unreachable path under the contracts (dead code, or an error path that cannot
					// occur): reported, not fatal — explicit anchors (sites, exits, preconditions) are
					res.unreachable = append(res.unreachable, strings.TrimSuffix(o.Name, "/hyp-cover"))
				} else {
					res.undecided = append(res.undecided, "vacuity: "+o.Name+" — "+o.Text+" (unsat)")
				}
			}
			continue
		}
		if verbose {
			fmt.Printf("  %-9s %-70s %.2fs %s\n", o.Result.Verdict, o.Name, o.Result.Seconds, o.Result.Winner)
		}
		if o.Known != nil {
			r := restricted[o]
			switch {
			case o.ok():
				res.nObl++
				res.nDis++
				res.lines = append(res.lines, fmt.Sprintf("NOTE: known finding no longer reproduces (obligation discharged): property=%s %s", o.Known.Property, o.Known.WhatFails))
			case r != nil && r.ok():
				res.nObl++
				res.nDis++ // the restricted obligation is the one counted
				res.nKnown++
				res.lines = append(res.lines, fmt.Sprintf("KNOWN-FINDING: property=%s %s", o.Known.Property, o.Known.WhatFails))
			default:
				res.nObl++
				res.nViol++
				if r != nil {
					o = r
				}
				res.lines = append(res.lines, reportViolation(v, prop, o))
			}
			continue
		}
		res.nObl++
		if o.ok() {
			res.nDis++
			continue
		}
		res.nViol++
		res.lines = append(res.lines, reportViolation(v, prop, o))
	}
	if only == "" && prop != "" && os.Getenv("GOVC_NO_SELFTEST") == "" {
		st, problems := selftestFor(prop, tier, seed)
		res.selftest = st
		res.undecided = append(res.undecided, problems...)
	}
	if only == "" && prop != "" && tier == "thorough" && os.Getenv("GOVC_NO_CANARY") == "" {
		// canaries: every committed scenario replay of this property (each reproduces a defect that
		// was repaired) is run against the current tree; one that fails again means the violation
		// has returned, whatever the obligations say
		res.canaries = runCanaries(v, prop, res)
	}
	if exp, ok := v.db.Expect[prop]; ok && res.nObl < exp && only == "" {
		res.undecided = append(res.undecided, fmt.Sprintf("vacuity: property %s produced %d obligations, contract files expect at least %d", prop, res.nObl, exp))
	}
	if res.nObl == 0 && only == "" {
		res.undecided = append(res.undecided, "vacuity: no obligations generated for "+prop)
	}
	return res
}

func reportViolation(v *Verifier, prop string, o *Obligation) string {
	dir := filepath.Join(verifDir, "replays", "out")
	os.MkdirAll(dir, 0o755)
	path := filepath.Join(dir, sanitize(prop+"_"+o.Name)+".json")
	ri := buildReplay(v, prop, o)
	b, _ := json.MarshalIndent(ri, "", " ")
	os.WriteFile(path, b, 0o644)
	line := fmt.Sprintf("VIOLATION property=%s replay=%s obligation=%s", prop, path, o.Name)
	if !ri.Confirmed {
		line += " no-failing-input-found"
	}
	return line
}

func writeEvidence(v *Verifier, res *propResult) {
	level := levelFor(res.prop)
	perBackend := map[string]map[string]float64{}
	var solverSecs float64
	var single []string
	var samples []map[string]interface{}
	funcs := []string{}
	abstr := map[string][]string{}
	for _, r := range res.reps {
		funcs = append(funcs, r.Key+" ["+r.Mode+"]")
		if len(r.Abstraction) > 0 {
			abstr[r.Key] = r.Abstraction
		}
	}
	kinds := map[string]int{}
	for _, o := range res.obls {
		if o.Result == nil {
			continue
		}
		kinds[o.Kind]++
		if o.Result.Winner != "" {
			m := perBackend[o.Result.Winner]
			if m == nil {
				m = map[string]float64{}
				perBackend[o.Result.Winner] = m
			}
			m["count"]++
			for _, r := range o.Result.Runs {
				if r.Solver == o.Result.Winner {
					m["seconds"] += r.Seconds
				}
			}
		}
		solverSecs += o.Result.Seconds
		if o.Strings {
			single = append(single, o.Name+" (cvc5 only: string theory)")
		}
		if len(samples) < 6 && !o.Cover {
			samples = append(samples, map[string]interface{}{"obligation": o.Name, "kind": o.Kind, "clause": o.Text,
				"verdict": o.Result.Verdict, "backend": o.Result.Winner, "seconds": o.Result.Seconds, "formula_nodes": termSize(o.asserts())})
		}
	}
	var trusted []string
	trusted = append(trusted, "the VC generator govc (go/ssa NaiveForm → SMT) and the solvers z3 5.1.0 / cvc5 1.0.x / z3 4.8.12 (first unsat wins; thorough tier reports disagreement)")
	trusted = append(trusted, "Go semantics as encoded in DESIGN.md §2.3; GOARCH=amd64, GOOS=linux")
	trusted = append(trusted, "monitor soundness meta-theorem (Lock…Unlock regions as atomic actions)")
	trusted = append(trusted, v.db.Trusted...)
	for k := range v.trusted {
		trusted = append(trusted, k)
	}
	sort.Strings(trusted[3:])
	cov := map[string]interface{}{
		"obligations":              res.nObl,
		"discharged":               res.nDis,
		"checker_cmd":              fmt.Sprintf("/verif/bin/govc check --property %s --tier %s", res.prop, res.tier),
		"trusted_base":             trusted,
		"functions_under_contract": funcs,
		"per_backend":              perBackend,
		"solver_seconds":           solverSecs,
		"load_seconds":             v.loadSecs,
		"cover_checks":             res.nCover,
		"known_findings_reported":  res.nKnown,
		"obligation_kinds":         kinds,
		"single_solver_obligations": single,
		"abstraction_log":          abstr,
		"samples":                  samples,
		"undecided":                res.undecided,
		"unreachable_paths":        res.unreachable,
		"cross_checked_on_all_solvers": res.crossChecked,
		"explanation":              explanationFor(res.prop),
		"evaluations":              res.nObl + res.nCover,
		"distinct_nontrivial":      res.nObl,
		"rule":                     "one SMT query per generated proof obligation (per clause / loop invariant conjunct / call-site precondition / monitor invariant at unlock / safety condition); distinct = distinct obligation names; covers (satisfiability of preconditions, reachability of exits) are counted separately",
	}
	if res.canaries != nil {
		cov["replay_canaries"] = res.canaries
	}
	if res.selftest != nil {
		cov["selftest"] = res.selftest
	}
	if res.bounded != nil {
		cov["bounded_standins"] = res.bounded
	}
	ev := evidence{PropertyID: res.prop, Tier: res.tier, Seed: res.seed, Level: level, Coverage: cov,
		Assumptions: trusted, WallS: res.wall, Violations: res.nViol}
	os.MkdirAll(filepath.Join(verifDir, "evidence"), 0o755)
	b, _ := json.MarshalIndent(ev, "", " ")
	os.WriteFile(filepath.Join(verifDir, "evidence", res.prop+".json"), b, 0o644)
}

func cmdDump(args []string) int {
	fs := flag.NewFlagSet("dump", flag.ExitOnError)
	only := fs.String("only", "", "substring of contract key")
	obl := fs.String("obl", "", "substring of obligation name to print SMT for")
	prop := fs.String("property", "", "property")
	solve := fs.Bool("solve", true, "solve")
	timeout := fs.Int("t", 10, "timeout")
	fs.Parse(args)
	v, err := loadVerifier(repoDir, nil)
	if err != nil {
		fmt.Fprintln(os.Stderr, "load failed:", err)
		return 2
	}
	reps, obls := collect(v, *prop, *only)
	for _, r := range reps {
		if r.Unsupported != "" {
			fmt.Println("UNSUPPORTED", r.Key, ":", r.Unsupported)
		}
		for _, m := range r.MissingAnchors {
			fmt.Println("UNDECIDED", r.Key, ":", m)
		}
		for _, a := range r.Abstraction {
			fmt.Println("  abstraction:", r.Key, ":", a)
		}
	}
	if *solve {
		discharge(obls, *timeout, false, 8)
	}
	for _, o := range obls {
		verdict := "-"
		secs := 0.0
		win := ""
		if o.Result != nil {
			verdict, secs, win = o.Result.Verdict, o.Result.Seconds, o.Result.Winner
		}
		mark := "ok  "
		if !o.ok() {
			mark = "FAIL"
		}
		fmt.Printf("%s %-8s %-80s %.2fs %-7s | %s\n", mark, verdict, o.Name, secs, win, trunc(o.Text, 90))
		if *obl != "" && strings.Contains(o.Name, *obl) {
			fmt.Println(smtPrelude + Script(o.asserts(), "", true))
			if o.Result != nil && o.Result.Model != "" {
				fmt.Println(trunc(o.Result.Model, 4000))
			}
			if o.Result != nil {
				for _, r := range o.Result.Runs {
					fmt.Printf("   %s: %s %.2fs %s\n", r.Solver, r.Result, r.Seconds, trunc(r.Output, 300))
				}
			}
		}
	}
	return 0
}

func cmdClosures(args []string) int {
	v, err := loadVerifier(repoDir, nil)
	if err != nil {
		fmt.Fprintln(os.Stderr, "load failed:", err)
		return 2
	}
	for _, a := range args {
		// a = pkgpath-suffix:Key e.g. internal/transfer:SendManifestMultiStream
		parts := strings.SplitN(a, ":", 2)
		fn := v.funcForKey(repoModule+"/"+parts[0], parts[1])
		if fn == nil {
			fmt.Println("not found:", a)
			continue
		}
		var rec func(f *ssa.Function, indent string)
		rec = func(f *ssa.Function, indent string) {
			for _, c := range f.AnonFuncs {
				fmt.Printf("%s%s  (%s) blocks=%d\n", indent, v.closureName(c), v.fset.Position(c.Pos()), len(c.Blocks))
				rec(c, indent+"  ")
			}
		}
		fmt.Println(a)
		rec(fn, "  ")
	}
	return 0
}

func cmdSSA(args []string) int {
	v, err := loadVerifier(repoDir, nil)
	if err != nil {
		fmt.Fprintln(os.Stderr, "load failed:", err)
		return 2
	}
	for _, a := range args {
		parts := strings.SplitN(a, ":", 2)
		fn := v.funcForKey(repoModule+"/"+parts[0], parts[1])
		if fn == nil {
			fmt.Println("not found:", a)
			continue
		}
		fn.WriteTo(os.Stdout)
	}
	return 0
}
