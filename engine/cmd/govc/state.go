package main

// Symbolic state and memory model.

import (
	"fmt"
	"go/types"
	"sort"
	"strings"

	"golang.org/x/tools/go/ssa"
)

type heldMutex struct {
	Obj  *Node // object holding the mutex (Ref) – or nil for a captured/local mutex
	Key  string
	Mon  *Monitor
	Read bool
	Inherited bool // held by the caller on entry (`holds` contract): not released here
}

type deferred struct {
	instr *ssa.Defer
	args  []Value
	fnv   Value
	cond  *Node // nil: unconditional; else the deferred call runs only under cond
}

type State struct {
	pc        *Node
	locals    map[interface{}]Value
	heaps     map[string]*Node
	allocBase *Node
	allocN    int
	held      []heldMutex
	defers    []deferred
	ghost     map[string]Value // named ghost variables
	priv      []privCell       // variable cells of this activation that no other code can reach yet
	privObjs  []privObj        // objects allocated by this activation that have not escaped yet (ghost state stays ours)
	epoch     int              // >0: everything not yet materialised was havocked (unknown call) at this epoch
	prefEpoch map[string]int   // heap-name prefix → epoch of the last Lock-havoc of that family
}

type privObj struct {
	ref *Node
	t   types.Type // pointer type
}

type privCell struct {
	ref   *Node
	alloc *ssa.Alloc
}

func (s *State) clone() *State {
	n := &State{pc: s.pc, allocBase: s.allocBase, allocN: s.allocN, epoch: s.epoch}
	n.locals = make(map[interface{}]Value, len(s.locals))
	for k, v := range s.locals {
		n.locals[k] = v
	}
	n.heaps = make(map[string]*Node, len(s.heaps))
	for k, v := range s.heaps {
		n.heaps[k] = v
	}
	n.ghost = make(map[string]Value, len(s.ghost))
	for k, v := range s.ghost {
		n.ghost[k] = v
	}
	n.held = append([]heldMutex(nil), s.held...)
	n.defers = append([]deferred(nil), s.defers...)
	n.priv = append([]privCell(nil), s.priv...)
	n.privObjs = append([]privObj(nil), s.privObjs...)
	if s.prefEpoch != nil {
		n.prefEpoch = make(map[string]int, len(s.prefEpoch))
		for k, v := range s.prefEpoch {
			n.prefEpoch[k] = v
		}
	}
	return n
}

func (s *State) assume(c *Node) { s.pc = And(s.pc, c) }

// heap returns the current array term for a heap; creates the initial symbolic one on demand.
func (e *Exec) heap(s *State, name, sortS string) *Node {
	if h, ok := s.heaps[name]; ok {
		return h
	}
	if pe := s.prefixEpochFor(name); pe > s.epoch && !e.v.immutableHeap(name) {
		h := TS.Const(fmt.Sprintf("heapE%d%s:%s", pe, map[bool]string{true: "s", false: ""}[nativeStrings], sanitize(name)), sortS)
		e.heapSorts[name] = sortS
		s.heaps[name] = h
		return h
	}
	if s.epoch > 0 && !e.v.immutableHeap(name) {
		// first touched after a call that may have changed everything: unrelated to the entry heap
		h := TS.Const(fmt.Sprintf("heapE%d%s:%s", s.epoch, map[bool]string{true: "s", false: ""}[nativeStrings], sanitize(name)), sortS)
		e.heapSorts[name] = sortS
		s.heaps[name] = h
		return h
	}
	// initial version shared by all states of this execution (same entry heap)
	h := TS.Const(e.heap0Name(name), sortS)
	e.heapSorts[name] = sortS
	// make sure the entry state (if exists) also knows it
	if e.entry != nil {
		if _, ok := e.entry.heaps[name]; !ok {
			e.entry.heaps[name] = h
		}
	}
	s.heaps[name] = h
	return h
}

func (e *Exec) setHeap(s *State, name string, h *Node, at ...*Node) {
	e.heapSorts[name] = h.Sort
	s.heaps[name] = h
	if e.written != nil {
		e.written[name] = true
		if e.writtenRefs != nil {
			if len(at) == 0 {
				e.writtenWhole[name] = true
			} else {
				e.writtenRefs[name] = append(e.writtenRefs[name], at...)
			}
		}
	}
}

func (e *Exec) allocTerm(s *State) *Node {
	return App("+", "Int", s.allocBase, IntLit(int64(s.allocN)))
}

func (e *Exec) newRef(s *State) *Node {
	r := e.allocTerm(s)
	s.allocN++
	return r
}

// freshLeaf: unconstrained value with type-range assumptions added to the state.
func (e *Exec) freshLeaf(s *State, name string, li leafInfo) *Node {
	n := TS.Fresh(name+li.Path, li.Sort)
	e.constrainLeaf(s, n, li.T, li.Sort)
	return n
}

func (e *Exec) constrainLeaf(s *State, n *Node, t types.Type, sortS string) {
	if sortS == "String" {
		return
	}
	if sortS == "Str" {
		l := e.strLen(n)
		s.assume(And(e.ile(e.idx(0), l), e.ile(l, e.idxBig(maxLen))))
		return
	}
	if t != nil {
		if _, _, ok := intInfo(t); ok && e.ar.m == ModeInt {
			s.assume(e.ar.inRange(n, t))
			return
		}
		switch t.Underlying().(type) {
		case *types.Pointer, *types.Map, *types.Chan:
			s.assume(And(App("<=", "Bool", IntLit(0), n), App("<", "Bool", n, e.allocTerm(s))))
		}
		return
	}
	if sortS == RefSort && n.Sort == RefSort {
		// slice backing ref
		s.assume(And(App("<=", "Bool", IntLit(0), n), App("<", "Bool", n, e.allocTerm(s))))
	}
}

func (e *Exec) freshValue(s *State, name string, t types.Type) Value {
	v := e.mode.build(t, func(li leafInfo) *Node { return e.freshLeaf(s, name, li) })
	e.constrainShape(s, v)
	return v
}

// slice well-formedness: 0 <= off, 0 <= len <= cap
func (e *Exec) constrainShape(s *State, v Value) {
	switch x := v.(type) {
	case *SliceV:
		z := e.idx(0)
		s.assume(And(e.ile(z, x.Off), e.ile(z, x.Len), e.ile(x.Len, x.Cap),
			e.ile(x.Cap, e.idxBig(maxLen)), e.ile(x.Off, e.idxBig(maxLen)),
			Implies(Eq(x.Ref, IntLit(0)), And(Eq(x.Len, z), Eq(x.Cap, z)))))
	case *StructV:
		for _, f := range x.F {
			e.constrainShape(s, f)
		}
	case *TupleV:
		for _, f := range x.E {
			e.constrainShape(s, f)
		}
	}
}

const maxLen = int64(1) << 48

func (e *Exec) idx(v int64) *Node { return e.ar.litI(v, types.Typ[types.Int]) }
func (e *Exec) idxBig(v int64) *Node { return e.ar.litI(v, types.Typ[types.Int]) }
func (e *Exec) ile(a, b *Node) *Node {
	if e.mode == ModeBV {
		return App("bvsle", "Bool", a, b)
	}
	return App("<=", "Bool", a, b)
}
func (e *Exec) ilt(a, b *Node) *Node {
	if e.mode == ModeBV {
		return App("bvslt", "Bool", a, b)
	}
	return App("<", "Bool", a, b)
}
func (e *Exec) iadd(a, b *Node) *Node {
	if e.mode == ModeBV {
		return App("bvadd", a.Sort, a, b)
	}
	return App("+", "Int", a, b)
}
func (e *Exec) isub(a, b *Node) *Node {
	if e.mode == ModeBV {
		return App("bvsub", a.Sort, a, b)
	}
	return App("-", "Int", a, b)
}

func (e *Exec) zeroValue(t types.Type) Value {
	return e.mode.build(t, func(li leafInfo) *Node { return e.zeroLeaf(li) })
}

func (e *Exec) zeroLeaf(li leafInfo) *Node {
	return zeroOfSort(li.Sort)
}

func zeroOfSort(s string) *Node {
	switch {
	case s == "Bool":
		return tFalse
	case s == "Int":
		return IntLit(0)
	case s == "Real":
		return TS.mk("0.0", "Real")
	case s == "Str":
		return strEmpty()
	case s == "String":
		return smtStringLit("")
	case s == "Iface":
		return ifaceNil()
	case len(s) > 10 && s[:10] == "(_ BitVec ":
		var w int
		fmt.Sscanf(s, "(_ BitVec %d)", &w)
		return BVLit(new(bigInt), w)
	case len(s) > 7 && s[:7] == "(Array ":
		_, v := arrayParts(s)
		return App(fmt.Sprintf("(as const %s)", s), s, zeroOfSort(v))
	}
	panic("zeroOfSort " + s)
}

func strEmpty() *Node {
	if nativeStrings {
		return smtStringLit("")
	}
	declStr()
	return TS.Const("str_empty", "Str")
}

func ifaceNil() *Node {
	declIface()
	return TS.Const("iface_nil", "Iface")
}

var strDeclared, ifaceDeclared bool

func declStr() {
	TS.DeclSort("Str")
	TS.DeclFun("slen", []string{"Str"}, "Int")
	TS.DeclFun("schars", []string{"Str"}, "(Array Int Int)")
	TS.DeclFun("scharsbv", []string{"Str"}, "(Array (_ BitVec 64) (_ BitVec 8))")
}
func declIface() {
	TS.DeclSort("Iface")
	TS.DeclFun("dyn", []string{"Iface"}, "Int")
}

// ---------------- memory access ----------------

// loadObj reads a whole object of type t at heap reference ref (fields under heap names H:<T><path>).
func (e *Exec) loadObj(s *State, t types.Type, ref *Node, rootT types.Type, prefix string) Value {
	v := e.loadObj0(s, t, ref, rootT, prefix)
	if !ref.bound {
		e.constrainShape(s, v)
	}
	return v
}

func (e *Exec) loadObj0(s *State, t types.Type, ref *Node, rootT types.Type, prefix string) Value {
	return e.mode.build(t, func(li leafInfo) *Node {
		name := heapNameObj(rootT, prefix+li.Path)
		h := e.heap(s, name, arraySort(RefSort, li.Sort))
		v := Select(h, ref)
		e.onLoad(s, name, ref, v, li)
		return v
	})
}

func (e *Exec) onLoad(s *State, heapName string, ref *Node, v *Node, li leafInfo) {
	if !v.bound {
		e.constrainLeaf(s, v, li.T, li.Sort)
		return
	}
	if li.T != nil {
		switch li.T.Underlying().(type) {
		case *types.Pointer, *types.Map, *types.Chan:
			// a pointer-like field read under a quantifier: every reference stored in a field is an
			// allocated object (or nil); stated for the root constants of the heap term
			e.assumeFieldRefsAllocated(s, s.heaps[heapName])
		}
	}
}

func (e *Exec) assumeFieldRefsAllocated(s *State, h *Node) {
	if h == nil {
		return
	}
	seen := map[int]bool{}
	var roots []*Node
	var rec func(n *Node)
	rec = func(n *Node) {
		if seen[n.id] {
			return
		}
		seen[n.id] = true
		switch {
		case n.Op == "store" && len(n.Args) == 3:
			rec(n.Args[0])
		case n.Op == "ite" && len(n.Args) == 3:
			rec(n.Args[1])
			rec(n.Args[2])
		case len(n.Args) == 0:
			roots = append(roots, n)
		}
	}
	rec(h)
	for _, r := range roots {
		o := BoundVar("o!wf", RefSort)
		x := Select(r, o)
		s.assume(Forall([]*Node{o}, And(App("<=", "Bool", IntLit(0), x), App("<", "Bool", x, e.allocTerm(s)))))
	}
}

func (e *Exec) storeObj(s *State, t types.Type, ref *Node, rootT types.Type, prefix string, val Value) {
	ls := e.mode.leaves(t)
	vs := leavesOf(val)
	if len(ls) != len(vs) {
		panic(fmt.Sprintf("storeObj: leaf count mismatch for %s: %d vs %d", t, len(ls), len(vs)))
	}
	for i, li := range ls {
		name := heapNameObj(rootT, prefix+li.Path)
		h := e.heap(s, name, arraySort(RefSort, li.Sort))
		e.checkGuardWrite(s, name, ref)
		e.setHeap(s, name, Store(h, ref, vs[i]), ref)
	}
}

// array heap: A:<elem><path> : Array Ref (Array Idx leaf)
func (e *Exec) loadElem(s *State, et types.Type, ref, idx *Node, prefix string, rootET types.Type) Value {
	return e.mode.build(et, func(li leafInfo) *Node {
		name := heapNameArr(rootET, prefix+li.Path)
		h := e.heap(s, name, arraySort(RefSort, arraySort(e.mode.idxSort(), li.Sort)))
		v := Select(Select(h, ref), idx)
		if !v.bound {
			e.constrainLeaf(s, v, li.T, li.Sort)
		}
		return v
	})
}

func (e *Exec) storeElem(s *State, et types.Type, ref, idx *Node, prefix string, rootET types.Type, val Value) {
	ls := e.mode.leaves(et)
	vs := leavesOf(val)
	for i, li := range ls {
		name := heapNameArr(rootET, prefix+li.Path)
		h := e.heap(s, name, arraySort(RefSort, arraySort(e.mode.idxSort(), li.Sort)))
		e.setHeap(s, name, Store(h, ref, Store(Select(h, ref), idx, vs[i])), ref)
	}
}

// Loc is a resolved memory location.
type Loc struct {
	// local cell with a path of projections
	cell  interface{}
	steps []locStep
	// heap object field: object of rootT at ref, leaf-path prefix
	ref    *Node
	rootT  types.Type
	prefix string
	// heap array element
	isElem bool
	idx    *Node
	T      types.Type // type stored at this location
}

type locStep struct {
	field int
	idx   *Node // for arrays
	isIdx bool
}

func derefType(t types.Type) types.Type {
	if p, ok := t.Underlying().(*types.Pointer); ok {
		return p.Elem()
	}
	panic("derefType: not a pointer: " + t.String())
}

// resolve turns a pointer Value (pointing to type T) into a Loc.
func (e *Exec) resolve(ptr Value, T types.Type) Loc {
	switch p := ptr.(type) {
	case *Node:
		return Loc{ref: p, rootT: T, T: T}
	case *LocalPtr:
		return Loc{cell: p.Cell, T: T}
	case *FieldPtr:
		ft := p.ST.Field(p.Idx).Type()
		base := e.resolve(p.Base, structTypeOf(p))
		if base.cell != nil {
			base.steps = append(append([]locStep(nil), base.steps...), locStep{field: p.Idx})
			base.T = ft
			return base
		}
		base.prefix = base.prefix + "." + p.ST.Field(p.Idx).Name()
		base.T = ft
		return base
	case *ElemPtr:
		if p.heapArr {
			ref := p.Base.(*Node)
			return Loc{ref: ref, isElem: true, idx: p.Idx, rootT: p.ET, T: p.ET}
		}
		base := e.resolve(p.Base, types.NewArray(p.ET, -1))
		if base.cell != nil {
			base.steps = append(append([]locStep(nil), base.steps...), locStep{isIdx: true, idx: p.Idx})
			base.T = p.ET
			return base
		}
		if base.isElem {
			panic("nested array in array heap unsupported")
		}
		// pointer to heap array object (e.g. *[N]T): ref is the array object in the A: heap
		if base.prefix == "" {
			return Loc{ref: base.ref, isElem: true, idx: p.Idx, rootT: p.ET, T: p.ET}
		}
		panic("array field inside heap struct: unsupported (" + base.prefix + ")")
	}
	panic(fmt.Sprintf("resolve: unsupported pointer value %T", ptr))
}

func structTypeOf(p *FieldPtr) types.Type {
	if p.NT != nil {
		return p.NT
	}
	return p.ST
}

func (e *Exec) load(s *State, ptr Value, T types.Type) Value {
	loc := e.resolve(ptr, T)
	return e.readLoc(s, loc)
}

func (e *Exec) readLoc(s *State, loc Loc) Value {
	if loc.cell != nil {
		v, ok := s.locals[loc.cell]
		if !ok {
			panic(fmt.Sprintf("read of uninitialised local %v", loc.cell))
		}
		for _, st := range loc.steps {
			if st.isIdx {
				av := v.(*ArrayV)
				v = mapLeaves(av.Elem, func(a *Node) *Node { return Select(a, st.idx) })
			} else {
				v = v.(*StructV).F[st.field]
			}
		}
		return v
	}
	if loc.isElem {
		return e.loadElem(s, loc.T, loc.ref, loc.idx, loc.prefix, loc.rootT)
	}
	if at, ok := loc.T.Underlying().(*types.Array); ok && loc.prefix == "" {
		// whole array object in A: heap
		ev := e.mode.build(at.Elem(), func(li leafInfo) *Node {
			name := heapNameArr(at.Elem(), li.Path)
			h := e.heap(s, name, arraySort(RefSort, arraySort(e.mode.idxSort(), li.Sort)))
			return Select(h, loc.ref)
		})
		return &ArrayV{Elem: ev, N: at.Len(), ET: at.Elem()}
	}
	e.checkGuardRead(s, loc)
	return e.loadObj(s, loc.T, loc.ref, loc.rootT, loc.prefix)
}

func (e *Exec) writeLoc(s *State, loc Loc, val Value) {
	if loc.cell != nil {
		if e.writtenLocals != nil {
			e.writtenLocals[loc.cell] = true
		}
		if len(loc.steps) == 0 {
			s.locals[loc.cell] = val
			return
		}
		s.locals[loc.cell] = updatePath(s.locals[loc.cell], loc.steps, val)
		return
	}
	if loc.isElem {
		e.storeElem(s, loc.T, loc.ref, loc.idx, loc.prefix, loc.rootT, val)
		return
	}
	if at, ok := loc.T.Underlying().(*types.Array); ok && loc.prefix == "" {
		av := val.(*ArrayV)
		ls := e.mode.leaves(at.Elem())
		vs := leavesOf(av.Elem)
		for i, li := range ls {
			name := heapNameArr(at.Elem(), li.Path)
			h := e.heap(s, name, arraySort(RefSort, arraySort(e.mode.idxSort(), li.Sort)))
			e.setHeap(s, name, Store(h, loc.ref, vs[i]), loc.ref)
		}
		return
	}
	e.storeObj(s, loc.T, loc.ref, loc.rootT, loc.prefix, val)
}

func updatePath(v Value, steps []locStep, val Value) Value {
	if len(steps) == 0 {
		return val
	}
	st := steps[0]
	if st.isIdx {
		av := v.(*ArrayV)
		if len(steps) == 1 {
			ne := zipLeaves(av.Elem, val, func(a, x *Node) *Node { return Store(a, st.idx, x) })
			return &ArrayV{Elem: ne, N: av.N, ET: av.ET}
		}
		cur := mapLeaves(av.Elem, func(a *Node) *Node { return Select(a, st.idx) })
		nv := updatePath(cur, steps[1:], val)
		ne := zipLeaves(av.Elem, nv, func(a, x *Node) *Node { return Store(a, st.idx, x) })
		return &ArrayV{Elem: ne, N: av.N, ET: av.ET}
	}
	sv := v.(*StructV)
	o := &StructV{T: sv.T, F: append([]Value(nil), sv.F...)}
	o.F[st.field] = updatePath(sv.F[st.field], steps[1:], val)
	return o
}

// mergeStates joins predecessor states (ite on path conditions).
func (e *Exec) mergeStates(ss []*State) *State {
	if len(ss) == 1 {
		return ss[0].clone()
	}
	// drop unreachable
	var live []*State
	for _, s := range ss {
		if s.pc != tFalse {
			live = append(live, s)
		}
	}
	if len(live) == 0 {
		return ss[0].clone()
	}
	if len(live) == 1 {
		return live[0].clone()
	}
	out := live[len(live)-1].clone()
	pcs := []*Node{}
	for _, s := range live {
		pcs = append(pcs, s.pc)
	}
	out.pc = Or(pcs...)
	mergeLeaf := func(get func(s *State) *Node) *Node {
		r := get(live[len(live)-1])
		for i := len(live) - 2; i >= 0; i-- {
			x := get(live[i])
			if x != r {
				r = Ite(live[i].pc, x, r)
			}
		}
		return r
	}
	// locals: keys present in all
	keys := map[interface{}]bool{}
	for k := range live[0].locals {
		keys[k] = true
	}
	for k := range out.locals {
		all := true
		for _, s := range live {
			if _, ok := s.locals[k]; !ok {
				all = false
			}
		}
		if !all {
			delete(out.locals, k)
			continue
		}
		same := true
		for _, s := range live[:len(live)-1] {
			if !valuesEqual(s.locals[k], out.locals[k]) {
				same = false
			}
		}
		if same {
			continue
		}
		r := live[len(live)-1].locals[k]
		for i := len(live) - 2; i >= 0; i-- {
			c := live[i].pc
			r = zipLeaves(live[i].locals[k], r, func(x, y *Node) *Node { return Ite(c, x, y) })
		}
		out.locals[k] = r
	}
	// heaps: union of names
	names := map[string]bool{}
	for _, s := range live {
		for k := range s.heaps {
			names[k] = true
		}
	}
	var nl []string
	for k := range names {
		nl = append(nl, k)
	}
	sort.Strings(nl)
	for _, k := range nl {
		k := k
		out.heaps[k] = mergeLeaf(func(s *State) *Node {
			if strings.HasPrefix(k, unlockSnap) {
				if _, ok := s.heaps[k]; !ok {
					// not touched on this path before its Unlock: the heap as this path sees it
					base := strings.TrimPrefix(k, unlockSnap)
					return e.heap(s, base, e.heapSorts[base])
				}
			}
			return e.heap(s, k, e.heapSorts[k])
		})
	}
	// ghost
	for k := range out.ghost {
		r := live[len(live)-1].ghost[k]
		for i := len(live) - 2; i >= 0; i-- {
			c := live[i].pc
			if g, ok := live[i].ghost[k]; ok {
				r = zipLeaves(g, r, func(x, y *Node) *Node { return Ite(c, x, y) })
			}
		}
		out.ghost[k] = r
	}
	// alloc: same base → max count; else fresh base
	sameBase := true
	maxN := 0
	for _, s := range live {
		if s.allocBase != live[0].allocBase {
			sameBase = false
		}
		if s.allocN > maxN {
			maxN = s.allocN
		}
	}
	if sameBase {
		out.allocBase = live[0].allocBase
		out.allocN = maxN
	} else {
		nb := TS.Fresh("allocbase", "Int")
		var cs []*Node
		for _, s := range live {
			cs = append(cs, Implies(s.pc, App(">=", "Bool", nb, e.allocTerm(s))))
		}
		out.allocBase = nb
		out.allocN = 0
		out.pc = And(out.pc, And(cs...))
	}
	// havoc epoch of heaps not materialised yet
	for _, s := range live {
		if s.epoch != out.epoch {
			epochCounter++
			out.epoch = epochCounter
			break
		}
	}
	// Lock-havoc epochs per heap family: keep the newest
	for _, s := range live {
		for k, v := range s.prefEpoch {
			if out.prefEpoch == nil {
				out.prefEpoch = map[string]int{}
			}
			if v > out.prefEpoch[k] {
				out.prefEpoch[k] = v
			}
		}
	}
	// private cells: intersection
	{
		var keep []privCell
		for _, pc := range out.priv {
			all := true
			for _, s := range live {
				found := false
				for _, q := range s.priv {
					if q.alloc == pc.alloc && q.ref == pc.ref {
						found = true
					}
				}
				if !found {
					all = false
				}
			}
			if all {
				keep = append(keep, pc)
			}
		}
		out.priv = keep
	}
	{
		var keep []privObj
		for _, po := range out.privObjs {
			all := true
			for _, s := range live {
				found := false
				for _, q := range s.privObjs {
					if q.ref == po.ref {
						found = true
					}
				}
				if !found {
					all = false
				}
			}
			if all {
				keep = append(keep, po)
			}
		}
		out.privObjs = keep
	}
	// held mutexes and defers must agree
	for _, s := range live {
		if len(s.held) != len(out.held) {
			// one of the paths still holds (or already released) a mutex the other does not: the
			// leak itself is reported where it happens (released-at-return / unlock-held
			// obligations); continue with the locks held on every path
			var common []heldMutex
			for _, h := range out.held {
				for _, g := range s.held {
					if g.Key == h.Key && g.Obj == h.Obj {
						common = append(common, h)
						break
					}
				}
			}
			out.held = common
			e.logAbs("lock state differs between merged paths: continuing with the locks held on all of them")
		}
	}
	// defers: union in order; a defer missing on some path becomes conditional
	{
		var order []*ssa.Defer
		seen := map[*ssa.Defer]bool{}
		var longest *State
		for _, s := range live {
			if longest == nil || len(s.defers) > len(longest.defers) {
				longest = s
			}
		}
		for _, d := range longest.defers {
			order = append(order, d.instr)
			seen[d.instr] = true
		}
		for _, s := range live {
			for _, d := range s.defers {
				if !seen[d.instr] {
					e.unsupported("defer stacks of merged paths are not prefix-compatible")
				}
			}
		}
		var merged []deferred
		for _, di := range order {
			var conds []*Node
			all := true
			var proto deferred
			for _, s := range live {
				found := false
				for _, d := range s.defers {
					if d.instr == di {
						found = true
						proto = d
						if d.cond != nil {
							conds = append(conds, And(s.pc, d.cond))
							all = false
						} else {
							conds = append(conds, s.pc)
						}
					}
				}
				if !found {
					all = false
				}
			}
			nd := deferred{instr: proto.instr, args: proto.args, fnv: proto.fnv}
			if !all {
				nd.cond = Or(conds...)
			}
			merged = append(merged, nd)
		}
		out.defers = merged
	}
	return out
}

func (e *Exec) heap0Name(name string) string {
	if nativeStrings {
		return "heap0s:" + sanitize(name)
	}
	if e.mode == ModeBV {
		return "heap0bv:" + sanitize(name)
	}
	return "heap0:" + sanitize(name)
}

var epochCounter int

func (s *State) prefixEpochFor(name string) int {
	best := 0
	for p, v := range s.prefEpoch {
		if strings.HasPrefix(name, p) && v > best {
			best = v
		}
	}
	return best
}
