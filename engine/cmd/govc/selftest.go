package main

// Self-test corpus: textual mutants of /repo applied in memory (packages overlay); each names the
// obligations that must fail. Must-still-pass variants measure brittleness.

import (
	"encoding/json"
	"fmt"
	"math/rand"
	"os"
	"path/filepath"
	"sort"
	"strings"
)

type Mutant struct {
	Name     string   `json:"name"`
	Property string   `json:"property"`
	File     string   `json:"file"` // relative to /repo
	Find     string   `json:"find"`
	Replace  string   `json:"replace"`
	Only     string   `json:"only"`      // restrict verification to contracts containing this substring
	MustFail []string `json:"must_fail"` // substrings; at least one failing obligation must match each... any
	MustPass bool     `json:"must_pass"`
	Note     string   `json:"note,omitempty"`
}

type MutantResult struct {
	Name    string   `json:"name"`
	Kind    string   `json:"kind"`
	OK      bool     `json:"ok"`
	Failing []string `json:"failing_obligations,omitempty"`
	Detail  string   `json:"detail,omitempty"`
}

func loadMutants(prop string) []*Mutant {
	var out []*Mutant
	files, _ := filepath.Glob(filepath.Join(verifDir, "selftest", "*.json"))
	sort.Strings(files)
	for _, f := range files {
		b, err := os.ReadFile(f)
		if err != nil {
			continue
		}
		var ms []*Mutant
		if err := json.Unmarshal(b, &ms); err != nil {
			fmt.Fprintln(os.Stderr, "selftest: bad file", f, err)
			continue
		}
		for _, m := range ms {
			if prop == "" || m.Property == prop {
				out = append(out, m)
			}
		}
	}
	return out
}

func runMutant(m *Mutant) MutantResult {
	res := MutantResult{Name: m.Name, Kind: "must-fail"}
	if m.MustPass {
		res.Kind = "must-pass"
	}
	path := filepath.Join(repoDir, m.File)
	src, err := os.ReadFile(path)
	if err != nil {
		res.Detail = err.Error()
		return res
	}
	if strings.Count(string(src), m.Find) != 1 {
		res.Detail = fmt.Sprintf("anchor text occurs %d times (stale mutant: the code it targets changed)", strings.Count(string(src), m.Find))
		res.OK = true // a stale mutant says nothing about the engine
		res.Kind += " (stale)"
		return res
	}
	mutated := strings.Replace(string(src), m.Find, m.Replace, 1)
	// fresh term store per run keeps memory bounded
	savedTS, savedLits := TS, strLits
	initTerms()
	strLits = map[string]*Node{}
	defer func() { TS, strLits = savedTS, savedLits; tTrue, tFalse = TS.mk("true", "Bool"), TS.mk("false", "Bool") }()
	v, err := loadVerifier(repoDir, map[string][]byte{path: []byte(mutated)})
	if err != nil {
		res.Detail = "mutant does not load: " + err.Error()
		res.OK = true
		res.Kind += " (does not compile)"
		return res
	}
	reps, obls := collect(v, m.Property, m.Only)
	unsupported := ""
	for _, r := range reps {
		if r.Unsupported != "" {
			unsupported = r.Key + ": " + r.Unsupported
		}
		for _, m := range r.MissingAnchors {
			unsupported = r.Key + ": " + m
		}
	}
	noRetry = !m.MustPass // a must-fail mutant only needs *some* obligation to stop discharging
	discharge(obls, 10, false, 8)
	noRetry = false
	for _, o := range obls {
		if !o.Cover && !o.ok() {
			res.Failing = append(res.Failing, o.Name)
		}
	}
	if m.MustPass {
		res.OK = len(res.Failing) == 0 && unsupported == ""
		if !res.OK {
			res.Detail = "benign variant raised an alarm " + unsupported
		}
		return res
	}
	if unsupported != "" && len(res.Failing) == 0 {
		res.Detail = "mutant not decided: " + unsupported
		return res
	}
	if len(m.MustFail) == 0 {
		res.OK = len(res.Failing) > 0
	} else {
		res.OK = false
		for _, want := range m.MustFail {
			for _, f := range res.Failing {
				if strings.Contains(f, want) {
					res.OK = true
				}
			}
		}
	}
	if !res.OK {
		res.Detail = "mutant survived: no expected obligation failed"
	}
	if len(res.Failing) > 6 {
		res.Failing = append(res.Failing[:6], fmt.Sprintf("… %d more", len(res.Failing)-6))
	}
	return res
}

// selftestFor runs a seeded sample (quick) or the whole corpus (thorough) for a property.
func selftestFor(prop, tier string, seed int) (map[string]interface{}, []string) {
	ms := loadMutants(prop)
	if len(ms) == 0 {
		return nil, nil
	}
	var sel []*Mutant
	if tier == "thorough" {
		sel = ms
	} else {
		r := rand.New(rand.NewSource(int64(seed)))
		var fail, pass []*Mutant
		for _, m := range ms {
			if m.MustPass {
				pass = append(pass, m)
			} else {
				fail = append(fail, m)
			}
		}
		r.Shuffle(len(fail), func(i, j int) { fail[i], fail[j] = fail[j], fail[i] })
		r.Shuffle(len(pass), func(i, j int) { pass[i], pass[j] = pass[j], pass[i] })
		if len(fail) > 2 {
			fail = fail[:2]
		}
		if len(pass) > 1 {
			pass = pass[:1]
		}
		sel = append(fail, pass...)
	}
	var results []MutantResult
	var problems []string
	killed, kept := 0, 0
	for _, m := range sel {
		r := runMutant(m)
		results = append(results, r)
		if !r.OK {
			problems = append(problems, fmt.Sprintf("selftest %s (%s): %s", r.Name, r.Kind, r.Detail))
		} else if strings.HasPrefix(r.Kind, "must-fail") && !strings.Contains(r.Kind, "stale") {
			killed++
		} else if strings.HasPrefix(r.Kind, "must-pass") {
			kept++
		}
	}
	return map[string]interface{}{"corpus": len(ms), "run": len(sel), "mutants_killed": killed, "benign_variants_kept": kept, "results": results}, problems
}

func cmdSelftest(args []string) int {
	prop := ""
	if len(args) > 0 {
		prop = args[0]
	}
	st, problems := selftestFor(prop, "thorough", 0)
	b, _ := json.MarshalIndent(st, "", " ")
	fmt.Println(string(b))
	if len(problems) > 0 {
		for _, p := range problems {
			fmt.Println("PROBLEM:", p)
		}
		return 2
	}
	return 0
}
