package main

// Symbolic execution of go/ssa (NaiveForm) functions: block scheduling, loop cutting by
// invariants, obligations.

import (
	"fmt"
	"go/constant"
	"go/token"
	"go/types"
	"math/big"
	"sort"
	"strings"

	"golang.org/x/tools/go/ssa"
)

type Obligation struct {
	Name     string
	Kind     string // ensures | invariant-entry | invariant-preserved | requires-at-call | safety | monitor | lemma | cover | frame | guard
	Pos      token.Pos
	Goal     *Node // to prove under Hyp
	Hyp      *Node
	Func     string
	Text     string // source text of the clause
	Cover    bool   // expect SAT (vacuity guard)
	Strings  bool
	Props    []string
	Mode     Mode
	Result   *SolveResult
	Replay   *ReplayInfo
	Known    *KnownFinding
	exec     *Exec
	skolems  []*Node
}

type unsupportedErr struct{ msg string }

type Exec struct {
	v       *Verifier
	fn      *ssa.Function
	fc      *FuncContract
	mode    Mode
	ar      Arith
	safety  bool
	regs    map[ssa.Value]Value
	obls    []*Obligation
	entry   *State
	params  map[string]Value // entry values of parameters by name
	paramT  map[string]types.Type
	results []Value
	resultT []types.Type

	heapSorts     map[string]string
	written       map[string]bool
	writtenLocals map[interface{}]bool
	quiet         int // >0: suppress obligations (dry runs, inlining)
	absLog        map[string]bool
	inlineDepth   int
	counters      map[string]int
	loopHeaders   []*ssa.BasicBlock
	siteAsserts   map[ssa.Instruction][]*SiteSpec
	props         []string
	funcKey       string
	retState      *State
	frozen        map[string]bool
	execExtra
}

func (e *Exec) unsupported(format string, args ...interface{}) {
	panic(unsupportedErr{fmt.Sprintf(format, args...)})
}

func (e *Exec) logAbs(format string, args ...interface{}) {
	if e.absLog == nil {
		e.absLog = map[string]bool{}
	}
	e.absLog[fmt.Sprintf(format, args...)] = true
}

func (e *Exec) oblName(kind string) string {
	if e.quiet > 0 {
		return kind
	}
	e.counters[kind]++
	return fmt.Sprintf("%s/%s#%d", e.funcKey, kind, e.counters[kind])
}

func (e *Exec) addObl(s *State, name, kind string, goal *Node, pos token.Pos, text string) {
	if e.quiet > 0 {
		return
	}
	if kind == "safety" && e.fc != nil && e.fc.SafetyKinds == nil && strings.Contains(name, "/safety/chan-") {
		// channel-close panics are opt-in (`safety chan-send chan-close`): they need the closed state of
		// the channels to be specified
		return
	}
	if kind == "safety" && e.fc != nil && e.fc.SafetyKinds != nil {
		// name = <func>/safety/<kind>#n
		ok := false
		for k := range e.fc.SafetyKinds {
			if strings.Contains(name, "/safety/"+k+"#") {
				ok = true
			}
		}
		if !ok {
			return
		}
	}
	if goal == tTrue {
		// still count as trivially discharged obligation? keep it: cheap and visible
	}
	e.obls = append(e.obls, &Obligation{Name: name, Kind: kind, Pos: pos, Goal: goal, Hyp: s.pc, Func: e.funcKey,
		Text: text, Props: e.props, Mode: e.mode, exec: e})
}

func newExec(v *Verifier, fn *ssa.Function, fc *FuncContract, mode Mode) *Exec {
	e := &Exec{v: v, fn: fn, fc: fc, mode: mode, regs: map[ssa.Value]Value{}, heapSorts: map[string]string{},
		counters: map[string]int{}, params: map[string]Value{}, paramT: map[string]types.Type{}}
	e.ar = Arith{m: mode, log: func(s string) { e.logAbs("%s", s) }}
	return e
}

// ---------- initial state ----------

func (e *Exec) initialState() *State {
	s := &State{pc: tTrue, locals: map[interface{}]Value{}, heaps: map[string]*Node{}, ghost: map[string]Value{}}
	s.allocBase = TS.Fresh("alloc0", "Int")
	s.assume(App(">=", "Bool", s.allocBase, IntLit(1)))
	return s
}

// bindParams creates symbolic parameters (and free variables for closures).
func (e *Exec) bindParams(s *State) {
	for _, p := range e.fn.Params {
		v := e.freshValue(s, "p_"+p.Name(), p.Type())
		e.regs[p] = v
		e.params[p.Name()] = v
		e.paramT[p.Name()] = p.Type()
	}
	e.pendingParamInv = true
	var fvRefs []*Node
	for _, fv := range e.fn.FreeVars {
		if e.fc != nil && e.frozenCapture(fv.Name()) {
			// frozen capture: keeps, inside the closure, the value it had when the closure was created
			// (the creator proves the closure's precondition there and that no later assignment exists)
			e.regs[fv] = &LocalPtr{Cell: fv}
			s.locals[fv] = e.freshValue(s, "fz_"+fv.Name(), derefType(fv.Type()))
			continue
		}
		v := e.freshValue(s, "fv_"+fv.Name(), fv.Type())
		e.regs[fv] = v
		if n, ok := v.(*Node); ok {
			s.assume(Not(Eq(n, IntLit(0))))
			fvRefs = append(fvRefs, n)
		}
	}
	// distinct captured cells of the same type are distinct objects
	for i := range e.fn.FreeVars {
		for j := i + 1; j < len(e.fn.FreeVars); j++ {
			if types.Identical(e.fn.FreeVars[i].Type(), e.fn.FreeVars[j].Type()) {
				a, ok1 := e.regs[e.fn.FreeVars[i]].(*Node)
				b, ok2 := e.regs[e.fn.FreeVars[j]].(*Node)
				if ok1 && ok2 {
					s.assume(Not(Eq(a, b)))
				}
			}
		}
	}
}

// ---------- CFG helpers ----------

func isBackEdge(from, to *ssa.BasicBlock) bool { return to.Dominates(from) }

func naturalLoop(h *ssa.BasicBlock) map[*ssa.BasicBlock]bool {
	body := map[*ssa.BasicBlock]bool{h: true}
	var stack []*ssa.BasicBlock
	for _, p := range h.Preds {
		if isBackEdge(p, h) && !body[p] {
			body[p] = true
			stack = append(stack, p)
		}
	}
	for len(stack) > 0 {
		b := stack[len(stack)-1]
		stack = stack[:len(stack)-1]
		for _, p := range b.Preds {
			if !body[p] {
				body[p] = true
				stack = append(stack, p)
			}
		}
	}
	return body
}

func isLoopHeader(b *ssa.BasicBlock) bool {
	for _, p := range b.Preds {
		if isBackEdge(p, b) {
			return true
		}
	}
	return false
}

func (e *Exec) computeLoopHeaders() {
	e.loopHeaders = nil
	for _, b := range e.fn.Blocks {
		if isLoopHeader(b) {
			e.loopHeaders = append(e.loopHeaders, b)
		}
	}
	// source order: by position of the loop statement. Blocks are created in source order, but
	// the header of `for cond {}` is created after its body; use the smallest block index in the
	// natural loop that is not the header's predecessor-from-outside... simpler: order by the
	// minimum index over the loop's blocks (outer loops contain inner ones → ties broken by size).
	key := func(h *ssa.BasicBlock) (int, int) {
		l := naturalLoop(h)
		min := h.Index
		for b := range l {
			if b.Index < min {
				min = b.Index
			}
		}
		return min, -len(l)
	}
	sort.SliceStable(e.loopHeaders, func(i, j int) bool {
		a1, a2 := key(e.loopHeaders[i])
		b1, b2 := key(e.loopHeaders[j])
		if a1 != b1 {
			return a1 < b1
		}
		return a2 < b2
	})
}

func (e *Exec) loopOrdinal(h *ssa.BasicBlock) int {
	for i, x := range e.loopHeaders {
		if x == h {
			return i + 1
		}
	}
	return 0
}

// ---------- region execution ----------

type exitEdge struct {
	to   *ssa.BasicBlock
	st   *State
	from *ssa.BasicBlock
}

// execRegion runs the blocks in `region` starting at `entry` with state st.
// Edges leaving the region are returned; edges back to `entry` (when entry is a loop header
// being executed as a loop body) are returned in backs.
func (e *Exec) execRegion(region map[*ssa.BasicBlock]bool, entry *ssa.BasicBlock, st *State, entryIsLoopBody bool) (exits []exitEdge, backs []*State) {
	incoming := map[*ssa.BasicBlock][]*State{}
	need := map[*ssa.BasicBlock]int{}
	for b := range region {
		n := 0
		for _, p := range b.Preds {
			if region[p] && !isBackEdge(p, b) {
				n++
			}
		}
		need[b] = n
	}
	need[entry] = 0
	done := map[*ssa.BasicBlock]bool{}
	ready := []*ssa.BasicBlock{entry}
	incoming[entry] = []*State{st}
	skip := map[*ssa.BasicBlock]bool{} // blocks executed as part of a nested loop

	deliver := func(from, to *ssa.BasicBlock, s *State) {
		if to == entry && entryIsLoopBody {
			backs = append(backs, s)
			return
		}
		if !region[to] {
			exits = append(exits, exitEdge{to, s, from})
			return
		}
		if isBackEdge(from, to) {
			// back edge to a header inside region that is handled by nested execution
			panic("unexpected back edge delivery")
		}
		incoming[to] = append(incoming[to], s)
		e.notePhiEdge(from, to, s)
		need[to]--
		if need[to] == 0 && !done[to] {
			ready = append(ready, to)
		}
	}

	for len(ready) > 0 {
		// pick lowest index for determinism
		sort.Slice(ready, func(i, j int) bool { return ready[i].Index < ready[j].Index })
		b := ready[0]
		ready = ready[1:]
		if done[b] || skip[b] {
			continue
		}
		done[b] = true
		in := e.mergeStates(incoming[b])
		if isLoopHeader(b) && !(b == entry && entryIsLoopBody) {
			// nested loop: handle as super node
			loop := naturalLoop(b)
			for lb := range loop {
				if lb != b {
					skip[lb] = true
					done[lb] = true
				}
			}
			lexits := e.execLoop(b, loop, in)
			for _, ex := range lexits {
				// edges out of the loop into our region (or beyond)
				if ex.to == entry && entryIsLoopBody {
					backs = append(backs, ex.st)
					continue
				}
				if !region[ex.to] {
					exits = append(exits, ex)
					continue
				}
				incoming[ex.to] = append(incoming[ex.to], ex.st)
				e.notePhiEdge(nil, ex.to, ex.st)
				// count: number of preds of ex.to that are in loop
				need[ex.to]--
				if need[ex.to] == 0 && !done[ex.to] {
					ready = append(ready, ex.to)
				}
			}
			continue
		}
		outs := e.execBlock(b, in)
		for _, o := range outs {
			deliver(b, o.to, o.st)
		}
	}
	return
}

// execLoop handles one loop with header h: invariant entry check, havoc, body, preservation.
func (e *Exec) execLoop(h *ssa.BasicBlock, loop map[*ssa.BasicBlock]bool, pre *State) []exitEdge {
	ord := e.loopOrdinal(h)
	var invs []*Clause
	var dec *Clause
	if e.fc != nil {
		invs = e.fc.LoopInv[ord]
		dec = e.fc.LoopDec[ord]
	}
	savedLoop := e.curLoop
	e.curLoop = h
	defer func() { e.curLoop = savedLoop }()
	// range-over-slice loops: the hidden index stays in [-1, len) — added as an ordinary invariant
	// (checked on entry and preservation like any other), so that element accesses are in range
	if ri := rangeIndexInvariant(h); ri != nil && e.fc != nil {
		have := false
		for _, c := range invs {
			if strings.Contains(c.Text, "-1 <= rangeindex") {
				have = true
			}
		}
		if !have {
			invs = append(append([]*Clause(nil), invs...), ri)
		}
	}
	// 1. invariants hold on entry
	for i, c := range invs {
		g := e.evalClause(c, pre, e.oldState(), nil)
		e.addObl(pre, fmt.Sprintf("%s/loop#%d/inv#%d/entry", e.funcKey, ord, i+1), "invariant-entry", g, h.Instrs[0].Pos(), c.Text)
	}
	// 2. dry run to collect the modified set
	savedW, savedWL := e.written, e.writtenLocals
	e.written, e.writtenLocals = map[string]bool{}, map[interface{}]bool{}
	e.quiet++
	func() {
		dry := pre.clone()
		savedRegs := e.regs
		e.regs = map[ssa.Value]Value{}
		for k, v := range savedRegs {
			e.regs[k] = v
		}
		e.execRegion(loop, h, dry, true)
		e.regs = savedRegs
	}()
	e.quiet--
	modH, modL := e.written, e.writtenLocals
	e.written, e.writtenLocals = savedW, savedWL
	if e.written != nil {
		for k := range modH {
			e.written[k] = true
		}
	}
	if e.writtenLocals != nil {
		for k := range modL {
			e.writtenLocals[k] = true
		}
	}
	// 3. havoc
	head := pre.clone()
	nb := TS.Fresh("allocbase", "Int")
	head.assume(App(">=", "Bool", nb, e.allocTerm(head)))
	allocLower[nb] = struct {
		prev *Node
		n    int
	}{head.allocBase, head.allocN}
	head.allocBase, head.allocN = nb, 0
	var lk []interface{}
	for k := range modL {
		lk = append(lk, k)
	}
	sort.Slice(lk, func(i, j int) bool { return fmt.Sprint(lk[i]) < fmt.Sprint(lk[j]) })
	for _, k := range lk {
		if a, ok := k.(*ssa.Alloc); ok {
			if _, had := head.locals[k]; had {
				head.locals[k] = e.freshValue(head, "loop_"+a.Comment, derefType(a.Type()))
			}
		}
	}
	var hk []string
	for k := range modH {
		hk = append(hk, k)
	}
	sort.Strings(hk)
	freshSyms := map[*Node]bool{}
	for _, k := range lk {
		if v, ok := head.locals[k]; ok {
			for _, n := range leavesOf(v) {
				freshSyms[n] = true
			}
		}
	}
	full := map[string]*Node{}
	for _, k := range hk {
		if strings.HasPrefix(k, "ghostvar:") {
			name := strings.TrimPrefix(k, "ghostvar:")
			if gv, ok := head.ghost[name]; ok {
				head.ghost[name] = mapLeaves(gv, func(n *Node) *Node { f := TS.Fresh("loop_g_"+name, n.Sort); freshSyms[f] = true; return f })
			}
			continue
		}
		if strings.HasPrefix(k, "family:") {
			// a Lock inside the loop havocs a whole family of heaps (also members not materialised yet)
			fam := strings.TrimPrefix(k, "family:")
			for name := range head.heaps {
				if strings.HasPrefix(name, fam) {
					f := TS.Fresh("loopheap_"+name, e.heapSorts[name])
					freshSyms[f] = true
					head.heaps[name] = f
				}
			}
			epochCounter++
			if head.prefEpoch == nil {
				head.prefEpoch = map[string]int{}
			}
			head.prefEpoch[fam] = epochCounter
			continue
		}
		f := TS.Fresh("loopheap_"+k, e.heapSorts[k])
		freshSyms[f] = true
		full[k] = f
		head.heaps[k] = f
	}
	freshSyms[nb] = true
	// second dry run from the havocked state: which references does one iteration write?
	savedW2, savedWL2, savedR, savedWh := e.written, e.writtenLocals, e.writtenRefs, e.writtenWhole
	e.written, e.writtenLocals = map[string]bool{}, map[interface{}]bool{}
	e.writtenRefs, e.writtenWhole = map[string][]*Node{}, map[string]bool{}
	e.quiet++
	func() {
		dry := head.clone()
		savedRegs := e.regs
		e.regs = map[ssa.Value]Value{}
		for k, v := range savedRegs {
			e.regs[k] = v
		}
		e.execRegion(loop, h, dry, true)
		e.regs = savedRegs
	}()
	e.quiet--
	refs2, whole2 := e.writtenRefs, e.writtenWhole
	e.written, e.writtenLocals, e.writtenRefs, e.writtenWhole = savedW2, savedWL2, savedR, savedWh
	for _, k := range hk {
		if full[k] == nil || whole2[k] {
			if e.writtenWhole != nil {
				e.writtenWhole[k] = true
			}
			// unknown calls inside the loop cannot reach variable cells that are still private to this
			// activation; those the loop does not assign itself keep their value
			if full[k] != nil {
				for _, pc := range pre.priv {
					t := derefType(pc.alloc.Type())
					if _, isArr := t.Underlying().(*types.Array); isArr {
						continue
					}
					mine := false
					for _, li := range e.mode.leaves(t) {
						if heapNameObj(t, li.Path) == k {
							mine = true
						}
					}
					if !mine {
						continue
					}
					written := false
					for _, r := range refs2[k] {
						if r == pc.ref {
							written = true
						}
					}
					if !written {
						if hp, ok := pre.heaps[k]; ok {
							head.heaps[k] = Store(head.heaps[k], pc.ref, Select(hp, pc.ref))
						}
					}
				}
			}
			continue
		}
		stable := true
		freshInLoop := false
		for _, r := range refs2[k] {
			if r.Op == "+" && len(r.Args) == 2 && r.Args[0] == nb {
				freshInLoop = true // object allocated in this very iteration: cannot alias anything older
				continue
			}
			if mentions(r, freshSyms) {
				stable = false
			}
		}
		if !stable {
			if e.writtenWhole != nil {
				e.writtenWhole[k] = true
			}
			continue
		}
		// only these references change: keep everything else
		hp := e.heap(pre, k, e.heapSorts[k])
		nh := hp
		if freshInLoop {
			// objects allocated by earlier iterations live at references >= the allocation counter at
			// loop entry; everything below is untouched by them
			base := TS.Fresh("loopheapb_"+k, e.heapSorts[k])
			r := BoundVar("r!lh", arrayKeySort(e.heapSorts[k]))
			head.assume(Forall([]*Node{r}, Implies(App("<", "Bool", r, e.allocTerm(pre)), Eq(Select(base, r), Select(hp, r)))))
			nh = base
		}
		seen := map[*Node]bool{}
		for _, r := range refs2[k] {
			if seen[r] || (r.Op == "+" && len(r.Args) == 2 && r.Args[0] == nb) {
				continue
			}
			seen[r] = true
			nh = Store(nh, r, Select(full[k], r))
		}
		head.heaps[k] = nh
		if e.writtenRefs != nil {
			e.writtenRefs[k] = append(e.writtenRefs[k], refs2[k]...)
		}
	}
	for _, c := range invs {
		head.assume(e.asHyp(func() *Node { return e.evalClause(c, head, e.oldState(), nil) }))
	}
	var dec0 *Node
	if dec != nil {
		dec0 = e.evalClause(dec, head, e.oldState(), nil)
	}
	// 4. body
	exits, backs := e.execRegion(loop, h, head, true)
	for _, bs := range backs {
		for i, c := range invs {
			g := e.evalClause(c, bs, e.oldState(), nil)
			e.addObl(bs, fmt.Sprintf("%s/loop#%d/inv#%d/preserved", e.funcKey, ord, i+1), "invariant-preserved", g, h.Instrs[0].Pos(), c.Text)
		}
		if dec != nil {
			d1 := e.evalClause(dec, bs, e.oldState(), nil)
			var g *Node
			if strings.HasPrefix(d1.Sort, "(_ BitVec") {
				g = App("bvult", "Bool", d1, dec0) // unsigned measure
			} else {
				g = And(App("<", "Bool", d1, dec0), App(">=", "Bool", dec0, IntLit(0)))
			}
			e.addObl(bs, fmt.Sprintf("%s/loop#%d/decreases", e.funcKey, ord), "decreases", g, h.Instrs[0].Pos(), dec.Text)
		}
	}
	if e.fc != nil && e.fc.LoopNoBreak[ord] {
		// the loop may be left only from its header: a break (or goto) out of the body would skip
		// the remaining elements
		for _, ex := range exits {
			if ex.from != nil && ex.from != h {
				e.addObl(ex.st, fmt.Sprintf("%s/loop#%d/nobreak", e.funcKey, ord), "loop", Not(ex.st.pc), h.Instrs[0].Pos(), "the loop is left only when its range is exhausted")
			}
		}
	}
	return exits
}

// ---------- function-level drivers ----------

// run executes the whole function from state st; returns merged return state (results in e.results).
func (e *Exec) run(st *State) *State {
	e.computeLoopHeaders()
	all := map[*ssa.BasicBlock]bool{}
	for _, b := range e.fn.Blocks {
		all[b] = true
	}
	e.retStates = nil
	e.execRegion(all, e.fn.Blocks[0], st, false)
	if len(e.retStates) == 0 {
		return nil
	}
	// merge returns
	var ss []*State
	for _, r := range e.retStates {
		ss = append(ss, r.st)
	}
	// stash results as pseudo-locals to merge
	for _, r := range e.retStates {
		for i, v := range r.vals {
			r.st.locals[fmt.Sprintf("$ret%d", i)] = v
		}
	}
	m := e.mergeStates(ss)
	e.results = nil
	for i := range e.retStates[0].vals {
		e.results = append(e.results, m.locals[fmt.Sprintf("$ret%d", i)])
	}
	return m
}

type retState struct {
	st   *State
	vals []Value
}

// ---------- blocks and instructions ----------

func (e *Exec) execBlock(b *ssa.BasicBlock, s *State) []exitEdge {
	for _, ins := range b.Instrs {
		switch x := ins.(type) {
		case *ssa.If:
			c := e.val(s, x.Cond).(*Node)
			t := s.clone()
			t.assume(c)
			f := s
			f.assume(Not(c))
			return []exitEdge{{b.Succs[0], t, b}, {b.Succs[1], f, b}}
		case *ssa.Jump:
			return []exitEdge{{b.Succs[0], s, b}}
		case *ssa.Return:
			if specs := e.siteAsserts[ins]; len(specs) > 0 {
				e.runSiteSpecs(s, ins, specs, true)
			}
			var vals []Value
			for _, r := range x.Results {
				vals = append(vals, e.val(s, r))
			}
			e.atReturn(s, x)
			e.retStates = append(e.retStates, retState{s, vals})
			return nil
		case *ssa.Panic:
			if e.safety {
				e.addObl(s, e.oblName("safety/panic"), "safety", Not(s.pc), x.Pos(), "explicit panic unreachable")
			}
			return nil
		default:
			e.execInstr(s, ins)
		}
	}
	return nil
}

func (e *Exec) setReg(v ssa.Value, val Value) { e.regs[v] = val }

func (e *Exec) val(s *State, v ssa.Value) Value {
	switch x := v.(type) {
	case *ssa.Const:
		return e.constValue(x)
	case *ssa.Function:
		return e.funcRef(x)
	case *ssa.Global:
		g := e.globalPtr(x).(*Node)
		s.assume(App(">", "Bool", g, IntLit(0)))
		return g
	case *ssa.Builtin:
		return IntLit(0)
	}
	r, ok := e.regs[v]
	if !ok {
		panic(fmt.Sprintf("undefined SSA value %s (%T) in %s", v.Name(), v, e.fn.Name()))
	}
	return r
}

func (e *Exec) funcRef(f *ssa.Function) Value {
	return TS.Const("func:"+sanitize(f.String()), RefSort)
}

func (e *Exec) globalPtr(g *ssa.Global) Value {
	return TS.Const("global:"+sanitize(g.String()), RefSort)
}

func (e *Exec) constValue(c *ssa.Const) Value {
	t := c.Type()
	if c.Value == nil {
		return e.zeroValue(t)
	}
	switch u := t.Underlying().(type) {
	case *types.Basic:
		switch {
		case u.Info()&types.IsBoolean != 0:
			if constant.BoolVal(c.Value) {
				return tTrue
			}
			return tFalse
		case u.Info()&types.IsInteger != 0:
			bi, _ := new(big.Int).SetString(c.Value.ExactString(), 10)
			if bi == nil {
				f, _ := constant.Int64Val(constant.ToInt(c.Value))
				bi = big.NewInt(f)
			}
			return e.ar.lit(bi, t)
		case u.Info()&types.IsString != 0:
			return e.strLit(constant.StringVal(c.Value))
		case u.Info()&types.IsFloat != 0:
			r := constant.ToFloat(c.Value)
			num, _ := new(big.Int).SetString(constant.Num(r).ExactString(), 10)
			den, _ := new(big.Int).SetString(constant.Denom(r).ExactString(), 10)
			if num == nil || den == nil {
				return TS.Fresh("floatconst", "Real")
			}
			neg := num.Sign() < 0
			num.Abs(num)
			t := TS.mk(fmt.Sprintf("(/ %s.0 %s.0)", num, den), "Real")
			if neg {
				return App("-", "Real", t)
			}
			return t
		}
	}
	panic("constValue: unsupported " + t.String())
}

var strLits = map[string]*Node{}

func (e *Exec) strLit(s string) *Node {
	if nativeStrings {
		return smtStringLit(s)
	}
	declStr()
	if s == "" {
		return strEmpty()
	}
	name := fmt.Sprintf("strlit_%d_%s", len(strLits), sanitize(trunc(s, 12)))
	if n, ok := strLits[s]; ok {
		return n
	}
	n := TS.Const(name, "Str")
	strLits[s] = n
	return n
}

// literal facts (length and bytes, for literals up to 64 bytes) are added as global axioms
func (e *Exec) strAxioms() *Node {
	var cs []*Node
	cs = append(cs, Eq(App("slen", "Int", strEmpty()), IntLit(0)))
	var keys []string
	for k := range strLits {
		keys = append(keys, k)
	}
	sort.Strings(keys)
	for _, k := range keys {
		n := strLits[k]
		cs = append(cs, Eq(App("slen", "Int", n), IntLit(int64(len(k)))))
		if len(k) <= 64 {
			for i := 0; i < len(k); i++ {
				if e.mode == ModeBV {
					cs = append(cs, Eq(Select(App("scharsbv", "(Array (_ BitVec 64) (_ BitVec 8))", n), BVLit(big.NewInt(int64(i)), 64)), BVLit(big.NewInt(int64(k[i])), 8)))
				} else {
					cs = append(cs, Eq(Select(App("schars", "(Array Int Int)", n), IntLit(int64(i))), IntLit(int64(k[i]))))
				}
			}
		}
	}
	return And(cs...)
}

func trunc(s string, n int) string {
	if len(s) > n {
		return s[:n]
	}
	return s
}

func (e *Exec) strLen(x *Node) *Node {
	if nativeStrings {
		return App("str.len", "Int", x)
	}
	declStr()
	l := App("slen", "Int", x)
	if e.mode == ModeBV {
		// bridge-free: separate function returning BV64
		TS.DeclFun("slenbv", []string{"Str"}, bvSort(64))
		return App("slenbv", bvSort(64), x)
	}
	return l
}

func (e *Exec) strChars(x *Node) *Node {
	if nativeStrings {
		e.unsupported("byte access to a string in native string mode")
	}
	declStr()
	if e.mode == ModeBV {
		return App("scharsbv", "(Array (_ BitVec 64) (_ BitVec 8))", x)
	}
	return App("schars", "(Array Int Int)", x)
}

func (e *Exec) execInstr(s *State, ins ssa.Instruction) {
	if specs := e.siteAsserts[ins]; len(specs) > 0 {
		e.runSiteSpecs(s, ins, specs, true)
	}
	// (after the "before" sites: an object handed to this very call is still private before it)
	if len(s.privObjs) > 0 {
		e.noteEscapes(s, ins)
	}
	switch x := ins.(type) {
	case *ssa.Alloc:
		t := derefType(x.Type())
		if x.Heap {
			r := e.newRef(s)
			e.setReg(x, r)
			e.writeLoc(s, e.resolve(r, t), e.zeroValue(t))
			if onlyClosureEscapes(x) {
				s.priv = append(s.priv, privCell{r, x})
			}
			e.initGhostFor(s, r, x.Type())
			if e.v.hasOwnGhost(x.Type()) {
				s.privObjs = append(s.privObjs, privObj{r, x.Type()})
			}
		} else {
			e.setReg(x, &LocalPtr{Cell: x})
			s.locals[x] = e.zeroValue(t)
		}
	case *ssa.Store:
		p := e.val(s, x.Addr)
		if _, isLocal := p.(*LocalPtr); !isLocal {
			e.assertValInv(s, e.val(s, x.Val), x.Val.Type(), x, "stored to shared memory")
		}
		e.writeLoc(s, e.resolve(p, derefType(x.Addr.Type())), e.val(s, x.Val))
	case *ssa.UnOp:
		e.setReg(x, e.unop(s, x))
	case *ssa.BinOp:
		e.setReg(x, e.binop(s, x.Op, e.val(s, x.X), e.val(s, x.Y), x.X.Type(), x.Y.Type(), x.Pos()))
	case *ssa.Convert:
		e.setReg(x, e.convert(s, e.val(s, x.X), x.X.Type(), x.Type()))
	case *ssa.ChangeType:
		e.setReg(x, e.val(s, x.X))
	case *ssa.FieldAddr:
		st := derefType(x.X.Type()).Underlying().(*types.Struct)
		base := e.val(s, x.X)
		if e.safety {
			if n, ok := base.(*Node); ok {
				e.addObl(s, e.oblName("safety/nil-deref"), "safety", Not(Eq(n, IntLit(0))), x.Pos(), "nil pointer dereference: "+x.X.Name()+"."+st.Field(x.Field).Name())
			}
		}
		e.setReg(x, &FieldPtr{Base: base, ST: st, Idx: x.Field, NT: derefType(x.X.Type())})
	case *ssa.Field:
		sv := e.val(s, x.X).(*StructV)
		e.setReg(x, sv.F[x.Field])
	case *ssa.IndexAddr:
		e.setReg(x, e.indexAddr(s, x))
	case *ssa.Index:
		e.setReg(x, e.index(s, x))
	case *ssa.Slice:
		e.setReg(x, e.slice(s, x))
	case *ssa.MakeSlice:
		e.setReg(x, e.makeSlice(s, x))
	case *ssa.Extract:
		tv := e.val(s, x.Tuple).(*TupleV)
		e.setReg(x, tv.E[x.Index])
	case *ssa.Call:
		e.setReg(x, e.call(s, x, &x.Call))
	case *ssa.Defer:
		var args []Value
		for _, a := range x.Call.Args {
			args = append(args, e.val(s, a))
		}
		var fv Value
		if !x.Call.IsInvoke() {
			if _, isFn := x.Call.Value.(*ssa.Function); !isFn {
				if _, isB := x.Call.Value.(*ssa.Builtin); !isB {
					fv = e.val(s, x.Call.Value)
				}
			}
		} else {
			fv = e.val(s, x.Call.Value)
		}
		s.defers = append(s.defers, deferred{instr: x, args: args, fnv: fv})
	case *ssa.RunDefers:
		// (site specs bound to this instruction — "before return" — have already run above)
		ds := s.defers
		s.defers = nil
		for i := len(ds) - 1; i >= 0; i-- {
			d := ds[i]
			if d.cond == nil {
				e.callCommon(s, d.instr, &d.instr.Call, d.args, d.fnv)
				continue
			}
			run := s.clone()
			run.assume(d.cond)
			skip := s.clone()
			skip.assume(Not(d.cond))
			e.callCommon(run, d.instr, &d.instr.Call, d.args, d.fnv)
			m := e.mergeStates([]*State{run, skip})
			*s = *m
		}
	case *ssa.Go:
		e.logAbs("go statement: no effect on the spawning thread")
	case *ssa.MakeInterface:
		e.setReg(x, e.makeInterface(s, x))
	case *ssa.ChangeInterface:
		e.setReg(x, e.val(s, x.X))
	case *ssa.TypeAssert:
		e.setReg(x, e.typeAssert(s, x))
	case *ssa.MakeClosure:
		e.setReg(x, e.makeClosure(s, x))
	case *ssa.MakeMap:
		e.setReg(x, e.makeMap(s, x))
	case *ssa.MakeChan:
		r := e.newRef(s)
		e.setReg(x, r)
		ch := e.heap(s, chanClosedHeap, chanClosedSort)
		e.setHeap(s, chanClosedHeap, Store(ch, r, tFalse), r)
	case *ssa.Lookup:
		e.setReg(x, e.lookup(s, x))
	case *ssa.MapUpdate:
		e.mapUpdate(s, x)
	case *ssa.Range:
		e.setReg(x, e.rangeInit(s, x))
	case *ssa.Next:
		e.setReg(x, e.rangeNext(s, x))
	case *ssa.Select:
		e.setReg(x, e.selectInstr(s, x))
	case *ssa.Send:
		e.sendInstr(s, x)
	case *ssa.DebugRef:
	case *ssa.SliceToArrayPointer:
		e.unsupported("slice to array pointer conversion")
	case *ssa.Phi:
		e.setReg(x, e.phi(s, x))
	default:
		e.unsupported("instruction %T", ins)
	}
	if specs := e.siteAsserts[ins]; len(specs) > 0 {
		e.runSiteSpecs(s, ins, specs, false)
	}
}

func (e *Exec) unop(s *State, x *ssa.UnOp) Value {
	switch x.Op {
	case token.MUL: // load
		p := e.val(s, x.X)
		t := derefType(x.X.Type())
		if e.safety {
			if n, ok := p.(*Node); ok {
				e.addObl(s, e.oblName("safety/nil-deref"), "safety", Not(Eq(n, IntLit(0))), x.Pos(), "nil pointer dereference")
			}
		}
		v := e.readLoc(s, e.resolve(p, t))
		if _, isLocal := p.(*LocalPtr); !isLocal {
			e.assumeValInv(s, v, t)
		}
		if g, ok := x.X.(*ssa.Global); ok && e.v.db.NonNil[g.Pkg.Pkg.Path()+"."+g.Name()] {
			if n, ok := v.(*Node); ok {
				if n.Sort == "Iface" {
					s.assume(Not(Eq(n, ifaceNil())))
				} else if n.Sort == RefSort {
					s.assume(Not(Eq(n, IntLit(0))))
				}
			}
		}
		return v
	case token.NOT:
		return Not(e.val(s, x.X).(*Node))
	case token.SUB:
		if isFloat(x.Type()) {
			return App("-", "Real", e.val(s, x.X).(*Node))
		}
		return e.ar.Neg(e.val(s, x.X).(*Node), x.Type())
	case token.XOR:
		return e.ar.BitNot(e.val(s, x.X).(*Node), x.Type())
	case token.ARROW:
		e.blockingUnderLock(s, x.Pos(), "channel receive")
		e.logAbs("channel receive: unconstrained value")
		t := x.X.Type().Underlying().(*types.Chan).Elem()
		v := e.freshValue(s, "recv", t)
		e.assumeValInv(s, v, t)
		e.assumeChanInv(s, x.X, v)
		if x.CommaOk {
			return &TupleV{E: []Value{v, TS.Fresh("recvok", "Bool")}}
		}
		return v
	}
	panic("unop " + x.Op.String())
}

func isFloat(t types.Type) bool {
	b, ok := t.Underlying().(*types.Basic)
	return ok && b.Info()&types.IsFloat != 0
}
func isString(t types.Type) bool {
	b, ok := t.Underlying().(*types.Basic)
	return ok && b.Info()&types.IsString != 0
}
func isBool(t types.Type) bool {
	b, ok := t.Underlying().(*types.Basic)
	return ok && b.Info()&types.IsBoolean != 0
}

func (e *Exec) binop(s *State, op token.Token, a, b Value, at, bt types.Type, pos token.Pos) Value {
	an, aok := a.(*Node)
	bn, bok := b.(*Node)
	if !aok || !bok {
		// struct / array comparison
		if op == token.EQL || op == token.NEQ {
			var cs []*Node
			zipLeaves(a, b, func(x, y *Node) *Node { cs = append(cs, Eq(x, y)); return x })
			r := And(cs...)
			if op == token.NEQ {
				return Not(r)
			}
			return r
		}
		// slice compared with nil
		panic(fmt.Sprintf("binop %s on composite values %T %T", op, a, b))
	}
	if _, _, ok := intInfo(at); ok || isMath(at) {
		switch op {
		case token.EQL, token.NEQ, token.LSS, token.LEQ, token.GTR, token.GEQ:
			return e.ar.Cmp(op, an, bn, at)
		case token.QUO, token.REM:
			if e.safety {
				e.addObl(s, e.oblName("safety/div-zero"), "safety", Not(Eq(bn, e.ar.litI(0, at))), pos, "division by zero")
			}
		}
		return e.ar.BinOp(op, an, bn, at, bt)
	}
	if isBool(at) {
		switch op {
		case token.EQL:
			return Eq(an, bn)
		case token.NEQ:
			return Not(Eq(an, bn))
		case token.AND, token.LAND:
			return And(an, bn)
		case token.OR, token.LOR:
			return Or(an, bn)
		}
	}
	if isFloat(at) {
		m := map[token.Token]string{token.ADD: "+", token.SUB: "-", token.MUL: "*", token.QUO: "/",
			token.LSS: "<", token.LEQ: "<=", token.GTR: ">", token.GEQ: ">="}
		switch op {
		case token.EQL:
			return Eq(an, bn)
		case token.NEQ:
			return Not(Eq(an, bn))
		case token.ADD, token.SUB, token.MUL, token.QUO:
			e.logAbs("float arithmetic treated as real arithmetic")
			return App(m[op], "Real", an, bn)
		default:
			return App(m[op], "Bool", an, bn)
		}
	}
	if isString(at) {
		if op == token.EQL || op == token.NEQ {
			var eq *Node
			switch {
			case an == strEmpty():
				eq = Eq(e.strLen(bn), e.idx(0))
			case bn == strEmpty():
				eq = Eq(e.strLen(an), e.idx(0))
			default:
				eq = Eq(an, bn)
			}
			if op == token.NEQ {
				return Not(eq)
			}
			return eq
		}
		switch op {
		case token.EQL:
			return Eq(an, bn)
		case token.NEQ:
			return Not(Eq(an, bn))
		case token.ADD:
			e.logAbs("string concatenation: length only")
			if nativeStrings {
				return App("str.++", "String", an, bn)
			}
			declStr()
			TS.DeclFun("str_cat", []string{"Str", "Str"}, "Str")
			r := App("str_cat", "Str", an, bn)
			if !r.bound {
				s.assume(Eq(e.strLen(r), e.iadd(e.strLen(an), e.strLen(bn))))
			}
			return r
		case token.LSS, token.LEQ, token.GTR, token.GEQ:
			if nativeStrings {
				e.unsupported("string ordering in native string mode")
			}
			TS.DeclFun("str_lt", []string{"Str", "Str"}, "Bool")
			lt := App("str_lt", "Bool", an, bn)
			gt := App("str_lt", "Bool", bn, an)
			switch op {
			case token.LSS:
				return lt
			case token.GTR:
				return gt
			case token.LEQ:
				return Not(gt)
			default:
				return Not(lt)
			}
		}
	}
	// pointers, interfaces, maps, chans: equality only
	switch op {
	case token.EQL:
		return Eq(an, bn)
	case token.NEQ:
		return Not(Eq(an, bn))
	}
	panic(fmt.Sprintf("binop %s on %s", op, at))
}

func (e *Exec) convert(s *State, v Value, from, to types.Type) Value {
	_, _, fi := intInfo(from)
	_, _, ti := intInfo(to)
	switch {
	case fi && ti:
		return e.ar.Convert(v.(*Node), from, to)
	case isString(from) && isByteSlice(to):
		// []byte(s): fresh backing array with the string's bytes
		str := v.(*Node)
		r := e.newRef(s)
		name := heapNameArr(types.Typ[types.Uint8], "")
		bs := e.mode.intSort(types.Typ[types.Uint8])
		h := e.heap(s, name, arraySort(RefSort, arraySort(e.mode.idxSort(), bs)))
		e.setHeap(s, name, Store(h, r, e.strChars(str)), r)
		l := e.strLen(str)
		return &SliceV{Ref: r, Off: e.idx(0), Len: l, Cap: l}
	case isByteSlice(from) && isString(to):
		sl := v.(*SliceV)
		return e.bytesToString(s, sl)
	case isString(from) && isString(to):
		return v
	case fi && isFloat(to):
		if e.mode == ModeBV {
			e.logAbs("int→float conversion in bv mode: unconstrained")
			return TS.Fresh("i2f", "Real")
		}
		return App("to_real", "Real", v.(*Node))
	case isFloat(from) && ti:
		e.logAbs("float→int conversion: unconstrained in-range value")
		return e.freshValue(s, "f2i", to)
	case isFloat(from) && isFloat(to):
		return v
	case fi && isString(to):
		e.logAbs("string(rune) conversion: unconstrained string")
		return TS.Fresh("runestr", strSort())
	}
	if _, ok := from.Underlying().(*types.Pointer); ok {
		return v
	}
	if b, ok := from.Underlying().(*types.Basic); ok && b.Kind() == types.UnsafePointer {
		return v
	}
	e.unsupported("conversion %s -> %s", from, to)
	return nil
}

func isByteSlice(t types.Type) bool {
	sl, ok := t.Underlying().(*types.Slice)
	if !ok {
		return false
	}
	b, ok := sl.Elem().Underlying().(*types.Basic)
	return ok && b.Kind() == types.Uint8
}

func (e *Exec) bytesToString(s *State, sl *SliceV) *Node {
	declStr()
	if nativeStrings {
		e.unsupported("[]byte to string conversion in native string mode")
	}
	r := TS.Fresh("str", "Str")
	name := heapNameArr(types.Typ[types.Uint8], "")
	bs := e.mode.intSort(types.Typ[types.Uint8])
	h := e.heap(s, name, arraySort(RefSort, arraySort(e.mode.idxSort(), bs)))
	arr := Select(h, sl.Ref)
	s.assume(Eq(e.strLen(r), sl.Len))
	if !e.mode.isBV() {
		s.assume(App(">=", "Bool", App("slen", "Int", r), IntLit(0)))
	}
	i := BoundVar("i!s", e.mode.idxSort())
	body := Implies(And(e.ile(e.idx(0), i), e.ilt(i, sl.Len)),
		Eq(Select(e.strChars(r), i), Select(arr, e.iadd(sl.Off, i))))
	s.assume(e.hypForall(i, body))
	return r
}

func (m Mode) isBV() bool { return m == ModeBV }

// ---------- slices / arrays ----------

func (e *Exec) bounds(s *State, cond *Node, pos token.Pos, what string) {
	if e.safety {
		e.addObl(s, e.oblName("safety/bounds"), "safety", cond, pos, what)
	}
}

func (e *Exec) indexAddr(s *State, x *ssa.IndexAddr) Value {
	idx := e.toIdx(e.val(s, x.Index).(*Node), x.Index.Type())
	switch t := x.X.Type().Underlying().(type) {
	case *types.Slice:
		sl := e.val(s, x.X).(*SliceV)
		e.bounds(s, And(e.ile(e.idx(0), idx), e.ilt(idx, sl.Len)), x.Pos(), "index out of range: "+x.X.Name()+"["+x.Index.Name()+"]")
		return &ElemPtr{Base: sl.Ref, Idx: e.iadd(sl.Off, idx), ET: t.Elem(), heapArr: true}
	case *types.Pointer:
		at := t.Elem().Underlying().(*types.Array)
		e.bounds(s, And(e.ile(e.idx(0), idx), e.ilt(idx, e.idx(at.Len()))), x.Pos(), "array index out of range")
		base := e.val(s, x.X)
		if r, ok := base.(*Node); ok {
			return &ElemPtr{Base: r, Idx: idx, ET: at.Elem(), heapArr: true}
		}
		return &ElemPtr{Base: base, Idx: idx, ET: at.Elem()}
	}
	panic("indexAddr on " + x.X.Type().String())
}

func (e *Exec) toIdx(n *Node, t types.Type) *Node {
	return e.ar.Convert(n, t, types.Typ[types.Int])
}

func (e *Exec) index(s *State, x *ssa.Index) Value {
	idx := e.toIdx(e.val(s, x.Index).(*Node), x.Index.Type())
	switch x.X.Type().Underlying().(type) {
	case *types.Array:
		av := e.val(s, x.X).(*ArrayV)
		e.bounds(s, And(e.ile(e.idx(0), idx), e.ilt(idx, e.idx(av.N))), x.Pos(), "array index out of range")
		return mapLeaves(av.Elem, func(a *Node) *Node { return Select(a, idx) })
	case *types.Basic: // string
		str := e.val(s, x.X).(*Node)
		e.bounds(s, And(e.ile(e.idx(0), idx), e.ilt(idx, e.strLen(str))), x.Pos(), "string index out of range")
		if nativeStrings {
			v := App("str.to_code", "Int", App("str.at", "String", str, idx))
			s.assume(e.ar.inRange(v, types.Typ[types.Uint8]))
			return v
		}
		v := Select(e.strChars(str), idx)
		if e.mode == ModeInt {
			s.assume(e.ar.inRange(v, types.Typ[types.Uint8]))
		}
		return v
	}
	panic("index on " + x.X.Type().String())
}

func (e *Exec) slice(s *State, x *ssa.Slice) Value {
	var lo, hi, max *Node
	if x.Low != nil {
		lo = e.toIdx(e.val(s, x.Low).(*Node), x.Low.Type())
	}
	if x.High != nil {
		hi = e.toIdx(e.val(s, x.High).(*Node), x.High.Type())
	}
	if x.Max != nil {
		max = e.toIdx(e.val(s, x.Max).(*Node), x.Max.Type())
	}
	if lo == nil {
		lo = e.idx(0)
	}
	switch t := x.X.Type().Underlying().(type) {
	case *types.Slice:
		sl := e.val(s, x.X).(*SliceV)
		if hi == nil {
			hi = sl.Len
		}
		capEnd := sl.Cap
		if max != nil {
			capEnd = max
			e.bounds(s, And(e.ile(hi, max), e.ile(max, sl.Cap)), x.Pos(), "slice max out of range")
		}
		e.bounds(s, And(e.ile(e.idx(0), lo), e.ile(lo, hi), e.ile(hi, sl.Cap)), x.Pos(), "slice bounds out of range: "+x.X.Name())
		return &SliceV{Ref: sl.Ref, Off: e.iadd(sl.Off, lo), Len: e.isub(hi, lo), Cap: e.isub(capEnd, lo)}
	case *types.Pointer:
		at := t.Elem().Underlying().(*types.Array)
		n := e.idx(at.Len())
		if hi == nil {
			hi = n
		}
		capEnd := n
		if max != nil {
			capEnd = max
		}
		e.bounds(s, And(e.ile(e.idx(0), lo), e.ile(lo, hi), e.ile(hi, n)), x.Pos(), "slice bounds out of range (array)")
		base := e.val(s, x.X)
		r, ok := base.(*Node)
		if !ok {
			e.unsupported("slicing a non-heap array")
		}
		return &SliceV{Ref: r, Off: lo, Len: e.isub(hi, lo), Cap: e.isub(capEnd, lo)}
	case *types.Basic:
		str := e.val(s, x.X).(*Node)
		if hi == nil {
			hi = e.strLen(str)
		}
		e.bounds(s, And(e.ile(e.idx(0), lo), e.ile(lo, hi), e.ile(hi, e.strLen(str))), x.Pos(), "string slice bounds")
		if nativeStrings {
			return App("str.substr", "String", str, lo, e.isub(hi, lo))
		}
		r := TS.Fresh("substr", "Str")
		s.assume(Eq(e.strLen(r), e.isub(hi, lo)))
		i := BoundVar("i!ss", e.mode.idxSort())
		s.assume(e.hypForall(i, Implies(And(e.ile(e.idx(0), i), e.ilt(i, e.isub(hi, lo))),
			Eq(Select(e.strChars(r), i), Select(e.strChars(str), e.iadd(lo, i))))))
		return r
	}
	panic("slice on " + x.X.Type().String())
}

func (e *Exec) makeSlice(s *State, x *ssa.MakeSlice) Value {
	l := e.toIdx(e.val(s, x.Len).(*Node), x.Len.Type())
	c := e.toIdx(e.val(s, x.Cap).(*Node), x.Cap.Type())
	if e.safety {
		e.addObl(s, e.oblName("safety/makeslice"), "safety", And(e.ile(e.idx(0), l), e.ile(l, c)), x.Pos(), "makeslice: len out of range")
	}
	s.assume(e.ile(c, e.idxBig(maxLen))) // an allocation that returned has at most 2^48 elements (runtime limit)
	e.allocSite(s, x, c, x.Type().Underlying().(*types.Slice).Elem())
	r := e.newRef(s)
	et := x.Type().Underlying().(*types.Slice).Elem()
	for _, li := range e.mode.leaves(et) {
		name := heapNameArr(et, li.Path)
		asort := arraySort(e.mode.idxSort(), li.Sort)
		h := e.heap(s, name, arraySort(RefSort, asort))
		e.setHeap(s, name, Store(h, r, zeroOfSort(asort)), r)
	}
	return &SliceV{Ref: r, Off: e.idx(0), Len: l, Cap: c}
}

// allocSite: hook for allocation-proportionality obligations (C15).
func (e *Exec) allocSite(s *State, ins ssa.Instruction, n *Node, et types.Type) {
	if e.fc == nil || e.fc.AllocBound == nil {
		return
	}
	if e.mode != ModeInt || e.quiet > 0 {
		return
	}
	sz := e.v.sizes.Sizeof(et)
	bound := e.evalClauseCur(e.fc.AllocBound, s, e.oldState(), nil)
	g := App("<=", "Bool", App("*", "Int", n, IntLit(sz)), bound)
	e.obls = append(e.obls, &Obligation{Name: e.oblName("alloc"), Kind: "alloc", Pos: ins.Pos(), Goal: g, Hyp: s.pc, Func: e.funcKey,
		Text: fmt.Sprintf("allocation of %d-byte elements bounded by %s", sz, e.fc.AllocBound.Text), Props: unionProps(orProps(e.fc.AllocBound.Props, e.props)), Mode: e.mode, exec: e})
}

func (e *Exec) notePhiEdge(from, to *ssa.BasicBlock, s *State) {
	if e.phiIn == nil {
		e.phiIn = map[*ssa.BasicBlock][]phiEdge{}
	}
	e.phiIn[to] = append(e.phiIn[to], phiEdge{from, s.pc})
}

// phi nodes survive NaiveForm only for && / || value merges.
func (e *Exec) phi(s *State, x *ssa.Phi) Value {
	b := x.Block()
	edges := e.phiIn[b]
	var res Value
	for i := len(edges) - 1; i >= 0; i-- {
		ed := edges[i]
		if ed.from == nil {
			e.unsupported("phi after a loop exit")
		}
		var v Value
		found := false
		for k, p := range b.Preds {
			if p == ed.from {
				v = e.val(s, x.Edges[k])
				found = true
				break
			}
		}
		if !found {
			e.unsupported("phi edge not found")
		}
		if res == nil {
			res = v
			continue
		}
		c := ed.pc
		res = zipLeaves(v, res, func(a, r *Node) *Node { return Ite(c, a, r) })
	}
	if res == nil {
		e.unsupported("phi without incoming edges")
	}
	return res
}

// oldState: what old(...) denotes — the function entry, or for a region contract the state right
// after the Lock (guarded state havocked, invariant assumed).
func (e *Exec) oldState() *State {
	if e.fc != nil && e.fc.Region && e.lastRegionStart != nil {
		return e.lastRegionStart
	}
	return e.entry
}

func mentions(n *Node, syms map[*Node]bool) bool {
	seen := map[int]bool{}
	var rec func(x *Node) bool
	rec = func(x *Node) bool {
		if seen[x.id] {
			return false
		}
		seen[x.id] = true
		if syms[x] {
			return true
		}
		for _, a := range x.Args {
			if rec(a) {
				return true
			}
		}
		return false
	}
	return rec(n)
}

// onlyClosureEscapes: the variable cell is reachable from other code only through closures that
// capture it (every other use is a direct load/store/field or element access).
func onlyClosureEscapes(a *ssa.Alloc) bool {
	var okUse func(v ssa.Value, depth int) bool
	okUse = func(v ssa.Value, depth int) bool {
		refs := v.Referrers()
		if refs == nil {
			return false
		}
		for _, r := range *refs {
			switch u := r.(type) {
			case *ssa.Store:
				if u.Val == v {
					return false
				}
			case *ssa.UnOp:
			case *ssa.FieldAddr:
				if depth > 4 || !okUse(u, depth+1) {
					return false
				}
			case *ssa.IndexAddr:
				if depth > 4 || !okUse(u, depth+1) {
					return false
				}
			case *ssa.MakeClosure:
			case *ssa.DebugRef:
			default:
				return false
			}
		}
		return true
	}
	return okUse(a, 0)
}

func (e *Exec) frozenCapture(name string) bool {
	for _, f := range e.fc.Frozen {
		if f == name {
			return true
		}
	}
	for _, r := range e.fc.Requires {
		if mentionsIdent(r.Text, name) {
			return true
		}
	}
	return false
}

var rangeIdxClause *Clause

// rangeIndexInvariant: if h is the header of a range-over-slice/array loop (SSA: rangeindex cell
// incremented in the header and compared with the length), the clause "-1 <= rangeindex".
func rangeIndexInvariant(h *ssa.BasicBlock) *Clause {
	if h.Comment != "rangeindex.loop" {
		return nil
	}
	if rangeIdxClause == nil {
		n, err := parseSpec("-1 <= rangeindex && rangeindex < 281474976710656")
		if err != nil {
			return nil
		}
		rangeIdxClause = &Clause{Text: "-1 <= rangeindex (implicit for range loops)", Expr: n}
	}
	return rangeIdxClause
}

// noteEscapes: an object allocated by this activation stops being private when its reference is
// stored anywhere but a local variable, passed to a call, captured, returned, sent or boxed.
func (e *Exec) noteEscapes(s *State, ins ssa.Instruction) {
	var vals []ssa.Value
	switch x := ins.(type) {
	case *ssa.Store:
		local := false
		func() {
			defer func() { recover() }()
			switch p := e.val(s, x.Addr).(type) {
			case *LocalPtr:
				local = true
			case *Node:
				for _, pc := range s.priv {
					if pc.ref == p {
						local = true
					}
				}
			}
		}()
		if !local {
			vals = append(vals, x.Val)
		}
	case *ssa.MapUpdate:
		vals = append(vals, x.Value, x.Key)
	case *ssa.Call:
		vals = append(vals, x.Call.Args...)
		if x.Call.IsInvoke() {
			vals = append(vals, x.Call.Value)
		}
	case *ssa.Go:
		vals = append(vals, x.Call.Args...)
	case *ssa.Defer:
		vals = append(vals, x.Call.Args...)
	case *ssa.Return:
		vals = append(vals, x.Results...)
	case *ssa.Send:
		vals = append(vals, x.X)
	case *ssa.MakeInterface:
		vals = append(vals, x.X)
	case *ssa.Phi:
		vals = append(vals, x.Edges...)
	case *ssa.Select:
		for _, st := range x.States {
			if st.Send != nil {
				vals = append(vals, st.Send)
			}
		}
	case *ssa.MakeClosure:
		for _, b := range x.Bindings {
			// the binding is the variable cell: what it currently holds becomes reachable
			func() {
				defer func() { recover() }()
				t := derefType(b.Type())
				if _, isPtr := t.Underlying().(*types.Pointer); isPtr {
					if n, ok := e.readLoc(s, e.resolve(e.val(s, b), t)).(*Node); ok {
						e.dropPrivObj(s, n)
					}
				}
			}()
		}
		return
	default:
		return
	}
	for _, v := range vals {
		func() {
			defer func() { recover() }()
			if _, isPtr := v.Type().Underlying().(*types.Pointer); !isPtr {
				return
			}
			if n, ok := e.val(s, v).(*Node); ok {
				e.dropPrivObj(s, n)
			}
		}()
	}
}

func (e *Exec) dropPrivObj(s *State, ref *Node) {
	var keep []privObj
	for _, po := range s.privObjs {
		if po.ref != ref {
			keep = append(keep, po)
		}
	}
	s.privObjs = keep
}

// blockingUnderLock: with `nonblocking` on a monitor, an operation that may block indefinitely while
// the mutex is held (every other thread that needs the mutex then waits too) is an obligation failure.
func (e *Exec) blockingUnderLock(s *State, pos token.Pos, what string) {
	for _, h := range s.held {
		if h.Mon != nil && h.Mon.NonBlocking && !h.Inherited {
			e.addObl(s, e.oblName("monitor/"+h.Key+"/no-blocking-under-lock"), "monitor", Not(s.pc), pos, what+" while holding "+h.Key+" may block every other user of the lock")
		}
	}
}
