package main

// Contract files: //@ lines in zz_contracts_verif.go (build tag verif, comment-only).

import (
	"fmt"
	"go/ast"
	"go/parser"
	"os"
	"path/filepath"
	"regexp"
	"sort"
	"strconv"
	"strings"
)

type Clause struct {
	Text  string
	Expr  *SpecNode
	File  string
	Line  int
	Label string
	Props []string // optional per-clause property tags  [C17,C03]
}

type SiteSpec struct {
	Kind    string // "call" | "return" | "store" | "append"
	Target  string // callee name (short or qualified) for "call"
	Nth     int    // 0 = every
	Before  bool
	Assume  []*Clause
	Assert  []*Clause
	Ghost   []string
	Step    string // "h": the call at this site is an atomic step on the monitor of object h (taken without the lock)
	Label   string
	Props   []string
	Line    int
}

type FuncContract struct {
	Key      string // as written: chunkTotal | (*sendFileState).markChunkDone | Outer$name
	PkgPath  string
	File     string
	Line     int
	Mode     Mode
	Pure     bool
	Safety   bool
	SafetyKinds map[string]bool // nil: all kinds
	Trusted  bool // extern / assumed: body not verified
	NoBody   bool
	Props    []string
	Requires []*Clause
	Ensures  []*Clause
	Returns  []string
	Modifies []string
	ModAll   bool
	LoopInv  map[int][]*Clause
	LoopDec  map[int]*Clause
	LoopNoBreak map[int]bool
	AllocBound *Clause
	Sites    []*SiteSpec
	Strings  bool
	Sig      string // for extern / interface methods: "(r io.Reader, buf []byte) (n int, err error)"
	Ghosts   []string
	Region   bool // monitor region function: invariant assumed at Lock, asserted at Unlock
	Havoc    bool // site mode: loops cut with true (default anyway)
	Frozen   []string
	Inline   bool
	PerReturn bool
	NoReturn bool   // the function never returns normally (ends the process): no exit cover is expected
	Holds    string // "s.mu": the function is only called with this mutex held (…Locked helpers)
}

type Monitor struct {
	PkgPath    string
	TypeName   string
	MutexField string
	Guards     []string
	Invariants []*Clause
	Transitions []*Clause
	Immutable  []string
	Props      []string
	GuardHeaps []string // whole heaps havocked at Lock (other types' fields)
	NonBlocking bool   // no blocking channel operation / wait while the mutex is held
	File       string
	Line       int
}

type Pred struct {
	Name   string
	Params []Binder
	Body   *SpecNode
	Also   *SpecNode // consequence of Body, used only on the hypothesis side
	Text   string
	PkgPath string
}

type Lemma struct {
	Name     string
	PkgPath  string
	Params   []Binder
	Mode     Mode
	Props    []string
	Requires []*Clause
	Ensures  []*Clause
	File     string
	Line     int
	Strings  bool
}

type Binder struct{ Name, Type string }

type GhostField struct {
	Owner string // type name (interface or struct)
	Name  string
	Type  string // "int" | "bool" | "[]byte" (ghost array of bytes) ...
}

type ContractDB struct {
	Funcs    map[string]*FuncContract // pkgpath + "." + Key
	Monitors []*Monitor
	Preds    map[string]*Pred
	Lemmas   []*Lemma
	NoEffect map[string]bool
	Ghost    map[string]*GhostField // Owner.Name
	Axioms   []*Clause
	Trusted  []string // mechanical scan: every trusted / extern / axiom / noeffect line
	Files    []string
	Expect   map[string]int
	IfaceMethods map[string]*FuncContract // "Stream.Write"
	Immutable []*ImmutableDecl
	NonNil    map[string]bool // package-level variables initialised once to a non-nil value
	ValInvs   []*ValInv
	UFuns     map[string]*UFun
	Rules     []*SiteRule
	MapInvs   []*MapInv
	ChanInvs  []*MapInv // same shape: Func.var + clause over v
	GhostAlias map[string]string // type name → owner whose ghost fields it shares (ghost like Stream: Reader, Buffer)
}

// SiteRule: a site obligation quantified over call targets and over the functions of a scope:
// `rule <label> [props] in <key> <key> ...` followed by `before call <t1> <t2> ...` and assert/assume lines.
type SiteRule struct {
	Label   string
	PkgPath string
	Props   []string
	Scope   []string
	Targets []string
	Assert  []*Clause
	Assume  []*Clause
}

// MapInv: invariant of the values stored in the map held by one named local variable of a function
// (and seen by its closures under the same name): asserted at every update through that variable,
// assumed at every lookup/range through it. The variable must not be aliased (checked syntactically).
type MapInv struct {
	PkgPath string
	Func    string
	Var     string
	Clause  *Clause
	Props   []string
}

// UFun: uninterpreted specification function (a mathematical function of its arguments, nothing else known).
type UFun struct {
	Name   string
	Params []Binder
	Ret    string
}

// ValInv: invariant of every value of a named type (or pointer to it) that crosses a boundary:
// asserted when such a value is sent, stored into shared memory or passed on; assumed when one is
// received, loaded or taken as a parameter.
type ValInv struct {
	PkgPath  string
	TypeName string
	Ptr      bool
	Clause   *Clause
	Props    []string
}

type ImmutableDecl struct {
	PkgPath  string
	TypeName string
	Fields   []string
	Writers  []string
	File     string
	Line     int
}

func newContractDB() *ContractDB {
	return &ContractDB{Funcs: map[string]*FuncContract{}, Preds: map[string]*Pred{}, NoEffect: map[string]bool{},
		Ghost: map[string]*GhostField{}, Expect: map[string]int{}, IfaceMethods: map[string]*FuncContract{}, NonNil: map[string]bool{}, GhostAlias: map[string]string{}, UFuns: map[string]*UFun{}}
}

var propTagRe = regexp.MustCompile(`^\[(C[0-9]+(?:,C[0-9]+)*)\]\s*`)

func splitProps(s string) ([]string, string) {
	if m := propTagRe.FindStringSubmatch(s); m != nil {
		return strings.Split(m[1], ","), s[len(m[0]):]
	}
	return nil, s
}

// loadContractFile parses one contract file. src may be supplied (overlay) or read from disk.
func (db *ContractDB) loadContractFile(path string, pkgPath string, src []byte) error {
	if src == nil {
		var err error
		src, err = os.ReadFile(path)
		if err != nil {
			return err
		}
	}
	db.Files = append(db.Files, path)
	type rawLine struct {
		text string
		line int
	}
	var lines []rawLine
	for i, l := range strings.Split(string(src), "\n") {
		t := strings.TrimSpace(l)
		if !strings.HasPrefix(t, "//@") {
			continue
		}
		t = strings.TrimPrefix(t, "//@")
		if strings.TrimSpace(t) == "" {
			continue
		}
		lines = append(lines, rawLine{strings.TrimRight(t, " \t"), i + 1})
	}
	// join continuation lines (ending with an operator or opening paren, or next line starting with operator)
	var joined []rawLine
	contTail := func(s string) bool {
		s = strings.TrimSpace(s)
		for _, suf := range []string{"&&", "||", "==>", "<==>", ",", "(", "::", "+", "<=", ">="} {
			if strings.HasSuffix(s, suf) {
				return true
			}
		}
		return false
	}
	for i := 0; i < len(lines); i++ {
		cur := lines[i]
		for i+1 < len(lines) && (contTail(cur.text) || strings.HasPrefix(strings.TrimSpace(lines[i+1].text), "&&") ||
			strings.HasPrefix(strings.TrimSpace(lines[i+1].text), "||") || strings.HasPrefix(strings.TrimSpace(lines[i+1].text), "==>")) {
			cur.text = cur.text + " " + strings.TrimSpace(lines[i+1].text)
			i++
		}
		joined = append(joined, cur)
	}
	var curF *FuncContract
	var curM *Monitor
	var curL *Lemma
	var curSite *SiteSpec
	var curRule *SiteRule
	mkClause := func(text string, line int) (*Clause, error) {
		props, rest := splitProps(strings.TrimSpace(text))
		n, err := parseSpec(rest)
		if err != nil {
			return nil, fmt.Errorf("%s:%d: %v", path, line, err)
		}
		return &Clause{Text: rest, Expr: n, File: path, Line: line, Props: props}, nil
	}
	for _, rl := range joined {
		t := strings.TrimSpace(rl.text)
		word, rest := t, ""
		if i := strings.IndexAny(t, " \t"); i >= 0 {
			word, rest = t[:i], strings.TrimSpace(t[i+1:])
		}
		switch word {
		case "func", "extern", "region":
			curM, curL, curSite, curRule = nil, nil, nil, nil
			fc := &FuncContract{PkgPath: pkgPath, File: path, Line: rl.line, LoopInv: map[int][]*Clause{}, LoopDec: map[int]*Clause{}}
			key := rest
			if word == "extern" {
				fc.Trusted = true
				fc.NoBody = true
				key = strings.TrimSpace(strings.TrimPrefix(key, "func"))
			}
			if word == "region" {
				fc.Region = true
			}
			// optional signature after the key
			if i := strings.Index(key, "("); i > 0 && !strings.HasPrefix(key, "(") {
				fc.Sig = key[i:]
				key = strings.TrimSpace(key[:i])
			} else if strings.HasPrefix(key, "(") {
				// (*T).Name[sig]
				j := strings.Index(key, ")")
				k := strings.Index(key[j:], "(")
				if k > 0 {
					fc.Sig = key[j+k:]
					key = strings.TrimSpace(key[:j+k])
				}
			}
			fc.Key = key
			full := pkgPath + "." + key
			if word == "extern" {
				full = key // fully qualified already: io.ReadFull, (*os.File).Close
				db.Trusted = append(db.Trusted, fmt.Sprintf("assumed contract on external function %s (%s:%d)", key, filepath.Base(path), rl.line))
			}
			if _, dup := db.Funcs[full]; dup {
				return fmt.Errorf("%s:%d: duplicate contract for %s", path, rl.line, full)
			}
			db.Funcs[full] = fc
			curF = fc
		case "method":
			// inside interface block: method Name(sig)
			if curF == nil || !strings.HasPrefix(curF.Key, "interface:") {
				return fmt.Errorf("%s:%d: method outside interface block", path, rl.line)
			}
			iname := strings.TrimPrefix(curF.Key, "interface:")
			if i := strings.Index(iname, "."); i >= 0 {
				iname = iname[:i]
			}
			name := rest
			sig := ""
			if i := strings.Index(rest, "("); i > 0 {
				name, sig = rest[:i], rest[i:]
			}
			fc := &FuncContract{PkgPath: pkgPath, File: path, Line: rl.line, LoopInv: map[int][]*Clause{}, LoopDec: map[int]*Clause{},
				Key: "interface:" + iname + "." + name, Sig: sig, Trusted: true, NoBody: true, Mode: curF.Mode}
			db.IfaceMethods[iname+"."+name] = fc
			db.Trusted = append(db.Trusted, fmt.Sprintf("interface contract %s.%s assumed for every implementation (%s:%d)", iname, name, filepath.Base(path), rl.line))
			curF = fc
		case "interface":
			curM, curL, curSite = nil, nil, nil
			curF = &FuncContract{Key: "interface:" + rest, PkgPath: pkgPath}
		case "monitor":
			curF, curL, curSite = nil, nil, nil
			// monitor (*T).mu
			m := regexp.MustCompile(`^\(\*(\w+)\)\.(\w+)$`).FindStringSubmatch(rest)
			if m == nil {
				return fmt.Errorf("%s:%d: bad monitor header %q", path, rl.line, rest)
			}
			curM = &Monitor{PkgPath: pkgPath, TypeName: m[1], MutexField: m[2], File: path, Line: rl.line}
			db.Monitors = append(db.Monitors, curM)
		case "lemma":
			curF, curM, curSite = nil, nil, nil
			name, params, err := parseHeader(rest)
			if err != nil {
				return fmt.Errorf("%s:%d: %v", path, rl.line, err)
			}
			curL = &Lemma{Name: name, Params: params, PkgPath: pkgPath, File: path, Line: rl.line}
			db.Lemmas = append(db.Lemmas, curL)
		case "pred":
			eq := strings.Index(rest, "=")
			// find the '=' after the closing paren of the header
			if p := strings.Index(rest, ")"); p >= 0 {
				eq = p + strings.Index(rest[p:], "=")
			}
			name, params, err := parseHeader(strings.TrimSpace(rest[:eq]))
			if err != nil {
				return fmt.Errorf("%s:%d: %v", path, rl.line, err)
			}
			bodyText := strings.TrimSpace(rest[eq+1:])
			var also *SpecNode
			if i := topLevelIndex(bodyText, " also "); i >= 0 {
				a, err := parseSpec(strings.TrimSpace(bodyText[i+6:]))
				if err != nil {
					return fmt.Errorf("%s:%d: %v", path, rl.line, err)
				}
				also = a
				bodyText = strings.TrimSpace(bodyText[:i])
			}
			body, err := parseSpec(bodyText)
			if err != nil {
				return fmt.Errorf("%s:%d: %v", path, rl.line, err)
			}
			db.Preds[name] = &Pred{Name: name, Params: params, Body: body, Also: also, Text: rest, PkgPath: pkgPath}
		case "valinv":
			// valinv [props] T expr   |  valinv [props] *T expr   (the value is called v)
			props, r2 := splitProps(rest)
			f := strings.SplitN(r2, " ", 2)
			if len(f) != 2 {
				return fmt.Errorf("%s:%d: bad valinv", path, rl.line)
			}
			c, err := mkClause(f[1], rl.line)
			if err != nil {
				return err
			}
			vi := &ValInv{PkgPath: pkgPath, TypeName: strings.TrimPrefix(f[0], "*"), Ptr: strings.HasPrefix(f[0], "*"), Clause: c, Props: props}
			db.ValInvs = append(db.ValInvs, vi)
		case "rule":
			// rule <label> [C07] in Key1 Key2 ...
			curF, curM, curL, curSite = nil, nil, nil, nil
			f := strings.Fields(rest)
			if len(f) < 3 {
				return fmt.Errorf("%s:%d: bad rule", path, rl.line)
			}
			r := &SiteRule{Label: f[0], PkgPath: pkgPath}
			k := 1
			if ps, _ := splitProps(f[1] + " "); ps != nil {
				r.Props = ps
				k = 2
			}
			if f[k] != "in" {
				return fmt.Errorf("%s:%d: rule needs `in <scope>`", path, rl.line)
			}
			r.Scope = f[k+1:]
			db.Rules = append(db.Rules, r)
			curRule = r
		case "targets":
			if curRule == nil {
				return fmt.Errorf("%s:%d: targets outside rule", path, rl.line)
			}
			curRule.Targets = append(curRule.Targets, strings.Fields(rest)...)
		case "chaninv":
			props, r2 := splitProps(rest)
			f := strings.SplitN(r2, " ", 2)
			i := strings.LastIndex(f[0], ".")
			if len(f) != 2 || i < 0 {
				return fmt.Errorf("%s:%d: bad chaninv", path, rl.line)
			}
			c, err := mkClause(f[1], rl.line)
			if err != nil {
				return err
			}
			db.ChanInvs = append(db.ChanInvs, &MapInv{PkgPath: pkgPath, Func: f[0][:i], Var: f[0][i+1:], Clause: c, Props: props})
		case "mapinv":
			// mapinv [props] Func.var <expr over k, v>
			props, r2 := splitProps(rest)
			f := strings.SplitN(r2, " ", 2)
			i := strings.LastIndex(f[0], ".")
			if len(f) != 2 || i < 0 {
				return fmt.Errorf("%s:%d: bad mapinv", path, rl.line)
			}
			c, err := mkClause(f[1], rl.line)
			if err != nil {
				return err
			}
			db.MapInvs = append(db.MapInvs, &MapInv{PkgPath: pkgPath, Func: f[0][:i], Var: f[0][i+1:], Clause: c, Props: props})
		case "ufun":
			// ufun name(a bytes, off Z, n Z) uint32
			j := strings.LastIndex(rest, ")")
			if j < 0 {
				return fmt.Errorf("%s:%d: bad ufun", path, rl.line)
			}
			name, params, err := parseHeader(rest[:j+1])
			if err != nil {
				return fmt.Errorf("%s:%d: %v", path, rl.line, err)
			}
			db.UFuns[name] = &UFun{Name: name, Params: params, Ret: strings.TrimSpace(rest[j+1:])}
		case "nonnil":
			for _, f := range strings.Fields(strings.ReplaceAll(rest, ",", " ")) {
				db.NonNil[pkgPath+"."+f] = true
			}
			db.Trusted = append(db.Trusted, fmt.Sprintf("package variables initialised once to a non-nil value and never reassigned (stores outside init are checked syntactically): %s (%s:%d)", rest, filepath.Base(path), rl.line))
		case "noeffect":
			for _, f := range strings.Fields(rest) {
				db.NoEffect[f] = true
			}
			db.Trusted = append(db.Trusted, fmt.Sprintf("assumed to have no effect on state under contract: %s (%s:%d)", rest, filepath.Base(path), rl.line))
		case "ghost":
			// ghost field Owner.name type
			f := strings.Fields(rest)
			if len(f) == 4 && f[0] == "like" {
				// ghost like Stream: Reader Buffer
				db.GhostAlias[f[2]] = strings.TrimSuffix(f[1], ":")
				db.GhostAlias[f[3]] = strings.TrimSuffix(f[1], ":")
			} else if len(f) == 3 && f[0] == "like" {
				db.GhostAlias[f[2]] = strings.TrimSuffix(f[1], ":")
			} else if len(f) == 3 && f[0] == "field" {
				parts := strings.SplitN(f[1], ".", 2)
				db.Ghost[f[1]] = &GhostField{Owner: parts[0], Name: parts[1], Type: f[2]}
			} else if curF != nil {
				curF.Ghosts = append(curF.Ghosts, rest)
			} else {
				return fmt.Errorf("%s:%d: bad ghost declaration", path, rl.line)
			}
		case "axiom":
			c, err := mkClause(rest, rl.line)
			if err != nil {
				return err
			}
			db.Axioms = append(db.Axioms, c)
			db.Trusted = append(db.Trusted, fmt.Sprintf("axiom: %s (%s:%d)", rest, filepath.Base(path), rl.line))
		case "expect":
			f := strings.Fields(rest)
			if len(f) == 2 {
				n, _ := strconv.Atoi(f[1])
				db.Expect[f[0]] = n
			}
		// ----- clauses -----
		case "arith":
			m := ModeInt
			if rest == "bv" {
				m = ModeBV
			}
			if curF != nil {
				curF.Mode = m
			} else if curL != nil {
				curL.Mode = m
			}
		case "strings":
			if curF != nil {
				curF.Strings = true
			} else if curL != nil {
				curL.Strings = true
			}
		case "pure":
			curF.Pure = true
		case "inline":
			curF.Inline = true
		case "perreturn":
			curF.PerReturn = true
		case "safety":
			curF.Safety = true
			if rest != "" {
				curF.SafetyKinds = map[string]bool{}
				for _, k := range strings.Fields(strings.ReplaceAll(rest, ",", " ")) {
					curF.SafetyKinds[k] = true
				}
			}
		case "trusted-assumption":
			db.Trusted = append(db.Trusted, fmt.Sprintf("assumption in %s: %s (%s:%d)", curF.Key, rest, filepath.Base(path), rl.line))
		case "trusted":
			curF.Trusted = true
			db.Trusted = append(db.Trusted, fmt.Sprintf("assumed (unverified) contract on %s: %s (%s:%d)", curF.Key, rest, filepath.Base(path), rl.line))
		case "props":
			ps := strings.Fields(strings.ReplaceAll(rest, ",", " "))
			switch {
			case curSite != nil:
				curSite.Props = ps
			case curF != nil:
				curF.Props = ps
			case curM != nil:
				curM.Props = ps
			case curL != nil:
				curL.Props = ps
			}
		case "returns":
			curF.Returns = strings.Fields(strings.ReplaceAll(rest, ",", " "))
		case "noreturn":
			curF.NoReturn = true
		case "holds":
			curF.Holds = rest
		case "frozen":
			curF.Frozen = append(curF.Frozen, strings.Fields(strings.ReplaceAll(rest, ",", " "))...)
		case "requires", "ensures":
			c, err := mkClause(rest, rl.line)
			if err != nil {
				return err
			}
			switch {
			case curF != nil && word == "requires":
				curF.Requires = append(curF.Requires, c)
			case curF != nil:
				curF.Ensures = append(curF.Ensures, c)
			case curL != nil && word == "requires":
				curL.Requires = append(curL.Requires, c)
			case curL != nil:
				curL.Ensures = append(curL.Ensures, c)
			default:
				return fmt.Errorf("%s:%d: clause outside a contract", path, rl.line)
			}
		case "modifies":
			if rest == "*" {
				curF.ModAll = true
			} else {
				for _, m := range strings.Split(rest, ",") {
					curF.Modifies = append(curF.Modifies, strings.TrimSpace(m))
				}
			}
		case "allocbound":
			c, err := mkClause(rest, rl.line)
			if err != nil {
				return err
			}
			curF.AllocBound = c
		case "loop":
			// loop 1 invariant <expr> | loop 1 decreases <expr>
			f := strings.SplitN(rest, " ", 3)
			if len(f) == 2 && f[1] == "nobreak" {
				// loop N nobreak: the loop is left only through its header (every element is visited)
				k, err := strconv.Atoi(strings.TrimPrefix(f[0], "#"))
				if err != nil {
					return fmt.Errorf("%s:%d: bad loop ordinal", path, rl.line)
				}
				if curF.LoopNoBreak == nil {
					curF.LoopNoBreak = map[int]bool{}
				}
				curF.LoopNoBreak[k] = true
				break
			}
			if len(f) < 3 {
				return fmt.Errorf("%s:%d: bad loop clause", path, rl.line)
			}
			k, err := strconv.Atoi(strings.TrimPrefix(f[0], "#"))
			if err != nil {
				return fmt.Errorf("%s:%d: bad loop ordinal", path, rl.line)
			}
			c, err := mkClause(f[2], rl.line)
			if err != nil {
				return err
			}
			if f[1] == "invariant" {
				curF.LoopInv[k] = append(curF.LoopInv[k], c)
			} else {
				curF.LoopDec[k] = c
			}
		case "nonblocking":
			if curM == nil {
				return fmt.Errorf("%s:%d: nonblocking outside monitor", path, rl.line)
			}
			curM.NonBlocking = true
		case "guards":
			curM.Guards = append(curM.Guards, strings.Fields(strings.ReplaceAll(rest, ",", " "))...)
		case "guardheaps":
			if curM == nil {
				return fmt.Errorf("%s:%d: guardheaps outside monitor", path, rl.line)
			}
			curM.GuardHeaps = append(curM.GuardHeaps, strings.Fields(strings.ReplaceAll(rest, ",", " "))...)
		case "immutable":
			if m := regexp.MustCompile(`^\(\*(\w+)\)\.([\w, ]+?)(?:\s+writers\s+(.*))?$`).FindStringSubmatch(rest); m != nil {
				d := &ImmutableDecl{PkgPath: pkgPath, TypeName: m[1], File: path, Line: rl.line}
				d.Fields = strings.Fields(strings.ReplaceAll(m[2], ",", " "))
				d.Writers = strings.Fields(strings.ReplaceAll(m[3], ",", " "))
				db.Immutable = append(db.Immutable, d)
				if len(d.Writers) > 0 {
					db.Trusted = append(db.Trusted, fmt.Sprintf("fields %s.%v are written only before publication by %v (writers are not checked to run before publication) (%s:%d)", d.TypeName, d.Fields, d.Writers, filepath.Base(path), rl.line))
				}
				break
			}
			curM.Immutable = append(curM.Immutable, strings.Fields(strings.ReplaceAll(rest, ",", " "))...)
			db.Trusted = append(db.Trusted, fmt.Sprintf("immutable after publication (syntactic check only): %s.%s (%s:%d)", curM.TypeName, rest, filepath.Base(path), rl.line))
		case "invariant":
			c, err := mkClause(rest, rl.line)
			if err != nil {
				return err
			}
			curM.Invariants = append(curM.Invariants, c)
		case "transition":
			c, err := mkClause(rest, rl.line)
			if err != nil {
				return err
			}
			curM.Transitions = append(curM.Transitions, c)
		case "site":
			// site <label>: before|after call <callee> [#n] | at return | at store <field>
			if curF == nil {
				return fmt.Errorf("%s:%d: site outside func", path, rl.line)
			}
			ss, err := parseSite(rest)
			if err != nil {
				return fmt.Errorf("%s:%d: %v", path, rl.line, err)
			}
			ss.Line = rl.line
			curF.Sites = append(curF.Sites, ss)
			curSite = ss
		case "set":
			// inside a site: set <ghostvar> = <expr>
			if curSite == nil {
				return fmt.Errorf("%s:%d: set outside site", path, rl.line)
			}
			curSite.Ghost = append(curSite.Ghost, rest)
		case "step":
			if curSite == nil {
				return fmt.Errorf("%s:%d: step outside site", path, rl.line)
			}
			curSite.Step = rest
		case "setall":
			// inside a site: setall x T :: x.f = <expr>
			if curSite == nil {
				return fmt.Errorf("%s:%d: setall outside site", path, rl.line)
			}
			curSite.Ghost = append(curSite.Ghost, "forall "+rest)
		case "assert", "assume":
			if curSite == nil && curRule != nil {
				c, err := mkClause(rest, rl.line)
				if err != nil {
					return err
				}
				if word == "assert" {
					curRule.Assert = append(curRule.Assert, c)
				} else {
					curRule.Assume = append(curRule.Assume, c)
				}
				break
			}
			if curSite == nil {
				return fmt.Errorf("%s:%d: %s outside site", path, rl.line, word)
			}
			c, err := mkClause(rest, rl.line)
			if err != nil {
				return err
			}
			if word == "assert" {
				curSite.Assert = append(curSite.Assert, c)
			} else {
				curSite.Assume = append(curSite.Assume, c)
			}
		default:
			return fmt.Errorf("%s:%d: unknown contract keyword %q", path, rl.line, word)
		}
	}
	return nil
}

func parseSite(s string) (*SiteSpec, error) {
	// <label>: (before|after) call <callee>[#n]   |   <label>: return   |  <label>: (before|after) store <T.field>
	i := strings.Index(s, ":")
	if i < 0 {
		return nil, fmt.Errorf("site needs a label")
	}
	ss := &SiteSpec{Label: strings.TrimSpace(s[:i])}
	f := strings.Fields(s[i+1:])
	if len(f) == 0 {
		return nil, fmt.Errorf("empty site")
	}
	k := 0
	if f[0] == "before" {
		ss.Before = true
		k = 1
	} else if f[0] == "after" {
		k = 1
	}
	if k >= len(f) {
		return nil, fmt.Errorf("bad site")
	}
	ss.Kind = f[k]
	if k+1 < len(f) {
		t := f[k+1]
		if j := strings.Index(t, "#"); j >= 0 && ss.Kind != "go" && ss.Kind != "defer" {
			n, _ := strconv.Atoi(t[j+1:])
			ss.Nth = n
			t = t[:j]
		}
		ss.Target = t
	}
	return ss, nil
}

func parseHeader(s string) (string, []Binder, error) {
	i := strings.Index(s, "(")
	if i < 0 {
		return strings.TrimSpace(s), nil, nil
	}
	name := strings.TrimSpace(s[:i])
	j := strings.LastIndex(s, ")")
	if j < i {
		return "", nil, fmt.Errorf("bad header %q", s)
	}
	bs, err := parseBinders(s[i+1 : j])
	return name, bs, err
}

func parseBinders(s string) ([]Binder, error) {
	var out []Binder
	s = strings.TrimSpace(s)
	if s == "" {
		return nil, nil
	}
	// "a, b int64, c uint32"
	var pending []string
	for _, part := range strings.Split(s, ",") {
		f := strings.Fields(strings.TrimSpace(part))
		switch len(f) {
		case 1:
			pending = append(pending, f[0])
		case 2:
			for _, p := range pending {
				out = append(out, Binder{p, f[1]})
			}
			pending = nil
			out = append(out, Binder{f[0], f[1]})
		default:
			return nil, fmt.Errorf("bad binder %q", part)
		}
	}
	if len(pending) > 0 {
		return nil, fmt.Errorf("binder without type: %v", pending)
	}
	return out, nil
}

// ---------------- spec expression parsing ----------------

type SpecNode struct {
	Kind string // go | imp | iff | forall | exists
	Go   ast.Expr
	Subs map[string]*SpecNode
	L, R *SpecNode
	Vars []Binder
	Body *SpecNode
	Src  string
}

func parseSpec(s string) (*SpecNode, error) {
	s = strings.TrimSpace(s)
	// quantifier at top
	for _, q := range []string{"forall", "exists"} {
		if strings.HasPrefix(s, q+" ") {
			i := topLevelIndex(s, "::")
			if i < 0 {
				break // `exists` / `forall` used as an ordinary identifier
			}
			bs, err := parseBinders(s[len(q)+1 : i])
			if err != nil {
				return nil, err
			}
			body, err := parseSpec(s[i+2:])
			if err != nil {
				return nil, err
			}
			return &SpecNode{Kind: q, Vars: bs, Body: body, Src: s}, nil
		}
	}
	if i := topLevelIndex(s, "<==>"); i >= 0 {
		l, err := parseSpec(s[:i])
		if err != nil {
			return nil, err
		}
		r, err := parseSpec(s[i+4:])
		if err != nil {
			return nil, err
		}
		return &SpecNode{Kind: "iff", L: l, R: r, Src: s}, nil
	}
	if i := topLevelIndex(s, "==>"); i >= 0 {
		l, err := parseSpec(s[:i])
		if err != nil {
			return nil, err
		}
		r, err := parseSpec(s[i+3:])
		if err != nil {
			return nil, err
		}
		return &SpecNode{Kind: "imp", L: l, R: r, Src: s}, nil
	}
	// replace parenthesised groups that contain spec-only syntax with placeholders
	subs := map[string]*SpecNode{}
	var sb strings.Builder
	i := 0
	for i < len(s) {
		if s[i] == '(' {
			j := matchParen(s, i)
			if j < 0 {
				return nil, fmt.Errorf("unbalanced parentheses in %q", s)
			}
			inner := s[i+1 : j]
			if strings.Contains(inner, "==>") || (strings.Contains(inner, "::") && (strings.Contains(inner, "forall ") || strings.Contains(inner, "exists "))) {
				// is this a call argument list? (preceded by identifier char) → handle args separately
				if i > 0 && isIdentChar(s[i-1]) {
					// split args at top-level commas
					args := splitTop(inner, ',')
					sb.WriteByte('(')
					for k, a := range args {
						if k > 0 {
							sb.WriteByte(',')
						}
						if strings.Contains(a, "==>") || (strings.Contains(a, "::") && (strings.Contains(a, "forall ") || strings.Contains(a, "exists "))) {
							n, err := parseSpec(a)
							if err != nil {
								return nil, err
							}
							name := fmt.Sprintf("SUB__%d", len(subs))
							subs[name] = n
							sb.WriteString(name)
						} else {
							sb.WriteString(a)
						}
					}
					sb.WriteByte(')')
				} else {
					n, err := parseSpec(inner)
					if err != nil {
						return nil, err
					}
					name := fmt.Sprintf("SUB__%d", len(subs))
					subs[name] = n
					sb.WriteString(name)
				}
				i = j + 1
				continue
			}
			sb.WriteString(s[i : j+1])
			i = j + 1
			continue
		}
		sb.WriteByte(s[i])
		i++
	}
	ex, err := parser.ParseExpr(sb.String())
	if err != nil {
		return nil, fmt.Errorf("cannot parse %q: %v", s, err)
	}
	return &SpecNode{Kind: "go", Go: ex, Subs: subs, Src: s}, nil
}

func isIdentChar(c byte) bool {
	return c == '_' || (c >= 'a' && c <= 'z') || (c >= 'A' && c <= 'Z') || (c >= '0' && c <= '9')
}

func matchParen(s string, i int) int {
	d := 0
	for j := i; j < len(s); j++ {
		switch s[j] {
		case '(':
			d++
		case ')':
			d--
			if d == 0 {
				return j
			}
		case '"':
			for j++; j < len(s) && s[j] != '"'; j++ {
				if s[j] == '\\' {
					j++
				}
			}
		}
	}
	return -1
}

func topLevelIndex(s, tok string) int {
	d := 0
	for i := 0; i+len(tok) <= len(s); i++ {
		switch s[i] {
		case '(', '[', '{':
			d++
		case ')', ']', '}':
			d--
		case '"':
			for i++; i < len(s) && s[i] != '"'; i++ {
				if s[i] == '\\' {
					i++
				}
			}
			continue
		}
		if d == 0 && strings.HasPrefix(s[i:], tok) {
			// do not match "==>" inside "<==>"
			if tok == "==>" && i > 0 && s[i-1] == '<' {
				continue
			}
			return i
		}
	}
	return -1
}

func splitTop(s string, sep byte) []string {
	var out []string
	d, last := 0, 0
	for i := 0; i < len(s); i++ {
		switch s[i] {
		case '(', '[', '{':
			d++
		case ')', ']', '}':
			d--
		}
		if d == 0 && s[i] == sep {
			out = append(out, s[last:i])
			last = i + 1
		}
	}
	return append(out, s[last:])
}

func (db *ContractDB) sortedFuncKeys() []string {
	var ks []string
	for k := range db.Funcs {
		ks = append(ks, k)
	}
	sort.Strings(ks)
	return ks
}
