package main

// Monitors (Lock…Unlock regions as atomic actions), maps, range iteration.

import (
	"fmt"
	"os"
	"go/types"
	"sort"
	"strings"

	"golang.org/x/tools/go/ssa"
)

func mutexOp(full string) string {
	switch full {
	case "(*sync.Mutex).Lock", "(*sync.RWMutex).Lock":
		return "lock"
	case "(*sync.Mutex).Unlock", "(*sync.RWMutex).Unlock":
		return "unlock"
	case "(*sync.RWMutex).RLock":
		return "rlock"
	case "(*sync.RWMutex).RUnlock":
		return "runlock"
	case "(*sync.Mutex).TryLock":
		return "trylock"
	}
	return ""
}

// monitorFor finds the monitor declared for the struct type holding the mutex field.
func (v *Verifier) monitorFor(st types.Type, field string) *Monitor {
	n, ok := st.(*types.Named)
	if !ok {
		return nil
	}
	for _, m := range v.db.Monitors {
		if m.TypeName == n.Obj().Name() && m.MutexField == field && n.Obj().Pkg() != nil && n.Obj().Pkg().Path() == m.PkgPath {
			return m
		}
	}
	return nil
}

func (v *Verifier) monitorForType(t types.Type) *Monitor {
	n, ok := t.(*types.Named)
	if !ok {
		return nil
	}
	for _, m := range v.db.Monitors {
		if m.TypeName == n.Obj().Name() && n.Obj().Pkg() != nil && n.Obj().Pkg().Path() == m.PkgPath {
			return m
		}
	}
	return nil
}

func (e *Exec) mutexCall(s *State, ins ssa.Instruction, op string, mu Value) {
	fp, ok := mu.(*FieldPtr)
	if !ok {
		// a bare mutex (captured local, parameter): no monitor; record nothing
		e.logAbs("lock operation on a mutex without monitor declaration: ignored")
		return
	}
	objT := e.ownerType(fp)
	mon := e.v.monitorFor(objT, fp.ST.Field(fp.Idx).Name())
	if mon == nil {
		e.logAbs("lock operation on %s.%s without monitor declaration: ignored", typeKey(objT), fp.ST.Field(fp.Idx).Name())
		return
	}
	obj, ok := fp.Base.(*Node)
	if !ok {
		e.unsupported("monitor mutex not in a heap object")
	}
	key := mon.TypeName + "." + mon.MutexField
	switch op {
	case "lock", "rlock":
		for _, h := range s.held {
			if h.Key == key {
				e.addObl(s, e.oblName("monitor/"+key+"/no-reentrant-lock"), "monitor", Not(Eq(h.Obj, obj)), ins.Pos(), "lock acquired while already held")
			}
		}
		// havoc guarded state, assume invariant
		before := s.clone()
		e.bumpAlloc(s) // other threads may have allocated objects now reachable through guarded state
		e.havocGuarded(s, mon, objT, obj)
		e.assumeRely(s, before, mon, objT, obj)
		s.held = append(s.held, heldMutex{Obj: obj, Key: key, Mon: mon, Read: op == "rlock"})
		for _, inv := range mon.Invariants {
			s.assume(e.asHyp(func() *Node { return e.evalMonitorInv(mon, inv, objT, obj, s) }))
		}
		e.regionStart[key] = s.clone()
		e.lastRegionStart = e.regionStart[key]
	case "unlock", "runlock":
		idx := -1
		for i, h := range s.held {
			if h.Key == key {
				idx = i
			}
		}
		if idx < 0 {
			e.addObl(s, e.oblName("monitor/"+key+"/unlock-held"), "monitor", Not(s.pc), ins.Pos(), "unlock of a mutex that is not held")
			return
		}
		if e.quiet == 0 {
			e.counters["region:"+key]++
		}
		ord := e.counters["region:"+key]
		for i, inv := range mon.Invariants {
			g := e.evalMonitorInv(mon, inv, objT, obj, s)
			name := fmt.Sprintf("%s/region:%s#%d/invariant#%d", e.funcKey, key, ord, i+1)
			if e.quiet == 0 {
				e.obls = append(e.obls, &Obligation{Name: name, Kind: "monitor", Pos: ins.Pos(), Goal: g, Hyp: s.pc, Func: e.funcKey,
					Text: inv.Text, Props: unionProps(e.props, mon.Props, inv.Props), Mode: e.mode, exec: e})
			}
		}
		if rs := e.regionStart[key]; rs != nil {
			for i, tr := range mon.Transitions {
				vars := map[string]specVar{"s": {obj, types.NewPointer(objT)}, "self": {obj, types.NewPointer(objT)}}
				cc := calleeCtx{e.v.pkgByPath(mon.PkgPath)}
				g := cc.evalWith(e, tr, s, rs, vars)
				name := fmt.Sprintf("%s/region:%s#%d/transition#%d", e.funcKey, key, ord, i+1)
				if e.quiet == 0 {
					e.obls = append(e.obls, &Obligation{Name: name, Kind: "monitor", Pos: ins.Pos(), Goal: g, Hyp: s.pc, Func: e.funcKey,
						Text: tr.Text, Props: unionProps(e.props, mon.Props, tr.Props), Mode: e.mode, exec: e})
				}
			}
		}
		s.held = append(s.held[:idx], s.held[idx+1:]...)
		// from here on other threads may change everything the monitor guards: a later read of guarded
		// state without the lock sees an arbitrary value (only the invariants hold again at the next Lock)
		if os.Getenv("GOVC_NO_UNLOCK_HAVOC") == "" {
			if e.fc != nil && e.fc.Region {
				// the postconditions of a region function describe the state at its (last) Unlock
				var names []string
				for name := range s.heaps {
					if !strings.HasPrefix(name, unlockSnap) {
						names = append(names, name)
					}
				}
				for _, name := range names {
					s.heaps[unlockSnap+name] = s.heaps[name]
					if srt, ok := e.heapSorts[name]; ok {
						e.heapSorts[unlockSnap+name] = srt
					}
				}
			}
			before := s.clone()
			e.havocGuarded(s, mon, objT, obj)
			e.assumeRely(s, before, mon, objT, obj)
		}
	}
}

// assumeRely: every critical section of every thread satisfies the monitor's two-state transitions
// (asserted at each Unlock of each function under contract; all locking functions must be under
// contract). Transitions are required to be reflexive and transitive, so they also relate the state
// this thread last saw to the state it sees after other threads ran.
func (e *Exec) assumeRely(s, before *State, mon *Monitor, objT types.Type, obj *Node) {
	for _, tr := range mon.Transitions {
		vars := map[string]specVar{"s": {obj, types.NewPointer(objT)}, "self": {obj, types.NewPointer(objT)}}
		cc := calleeCtx{e.v.pkgByPath(mon.PkgPath)}
		s.assume(e.asHyp(func() *Node { return cc.evalWith(e, tr, s, before, vars) }))
	}
}

const unlockSnap = "$unlock:"

// atLastUnlock: the state in which a region function's postconditions are evaluated — the heaps as
// they were at the last Unlock on each path, everything else (results, locals, path condition) as at
// the return.
func (e *Exec) atLastUnlock(ret *State) *State {
	if e.fc == nil || !e.fc.Region || ret == nil {
		return ret
	}
	st := ret.clone()
	for name, h := range ret.heaps {
		if strings.HasPrefix(name, unlockSnap) {
			st.heaps[strings.TrimPrefix(name, unlockSnap)] = h
		}
	}
	for name := range st.heaps {
		if strings.HasPrefix(name, unlockSnap) {
			delete(st.heaps, name)
		}
	}
	return st
}

func unionProps(ps ...[]string) []string {
	seen := map[string]bool{}
	var out []string
	for _, p := range ps {
		for _, x := range p {
			if !seen[x] {
				seen[x] = true
				out = append(out, x)
			}
		}
	}
	return out
}

func (e *Exec) ownerType(fp *FieldPtr) types.Type {
	if fp.NT != nil {
		return fp.NT
	}
	// type of the struct that owns the field: find a Named type whose underlying is fp.ST
	return e.v.namedForStruct(fp.ST)
}

func (e *Exec) evalMonitorInv(mon *Monitor, inv *Clause, objT types.Type, obj *Node, s *State) *Node {
	vars := map[string]specVar{"s": {obj, types.NewPointer(objT)}, "self": {obj, types.NewPointer(objT)}}
	cc := calleeCtx{e.v.pkgByPath(mon.PkgPath)}
	return cc.evalWith(e, inv, s, e.entry, vars)
}

// havocGuarded: at Lock, everything the monitor guards is arbitrary (other threads ran).
func (e *Exec) havocGuarded(s *State, mon *Monitor, objT types.Type, obj *Node) {
	e.noGuard++
	defer func() { e.noGuard-- }()
	if len(s.privObjs) > 0 {
		// ghost state of objects this activation allocated and has not shared yet cannot be changed
		// by other threads: ghost assignments only happen in functions under contract, on objects
		// they can reach
		type keepG struct {
			name string
			key  *Node
			val  *Node
		}
		var keep []keepG
		for _, po := range s.privObjs {
			n := po.t.Underlying().(*types.Pointer).Elem().(*types.Named)
			for _, gf := range e.v.db.Ghost {
				if gf.Owner != n.Obj().Name() {
					continue
				}
				name := ghostHeapName(gf)
				h := e.heap(s, name, e.ghostHeapSort(gf, "Iface"))
				key := e.box(s, po.ref, po.t)
				keep = append(keep, keepG{name, key, Select(h, key)})
			}
		}
		defer func() {
			for _, k := range keep {
				if h, ok := s.heaps[k.name]; ok {
					s.heaps[k.name] = Store(h, k.key, k.val)
				}
			}
		}()
	}
	st := objT.Underlying().(*types.Struct)
	for _, g := range mon.Guards {
		idx, _ := findField(st, g)
		if idx < 0 {
			e.unsupported("monitor %s: no field %s", mon.TypeName, g)
		}
		ft := st.Field(idx).Type()
		fp := &FieldPtr{Base: obj, ST: st, Idx: idx, NT: objT}
		e.writeLoc(s, e.resolve(fp, ft), e.freshValue(s, "lk_"+g, ft))
	}
	for _, h := range mon.GuardHeaps {
		// "(*T).f" or raw heap name prefix
		if strings.HasPrefix(h, "(*") {
			tn := h[2:strings.Index(h, ")")]
			fld := h[strings.LastIndex(h, ".")+1:]
			t := e.v.lookupType(mon.PkgPath, tn)
			if t == nil {
				e.unsupported("monitor guardheaps: unknown type %s", tn)
			}
			e.havocFieldHeap(s, t, fld)
			continue
		}
		e.havocFamily(s, h, "lk_")
	}
}

// havocFamily makes every heap whose name starts with prefix arbitrary, including members not yet
// touched in this activation (through the family epoch).
func (e *Exec) havocFamily(s *State, h string, tag string) {
	var names []string
	for name := range s.heaps {
		if strings.HasPrefix(name, h) {
			names = append(names, name)
		}
	}
	sort.Strings(names)
	for _, name := range names {
		e.setHeap(s, name, TS.Fresh(tag+name, e.heapSorts[name]))
	}
	epochCounter++
	if s.prefEpoch == nil {
		s.prefEpoch = map[string]int{}
	}
	s.prefEpoch[h] = epochCounter
	if e.written != nil {
		e.written["family:"+h] = true
		if e.writtenWhole != nil {
			e.writtenWhole["family:"+h] = true
		}
	}
}

// guard checks: access to a guarded field requires holding the object's mutex.
func (e *Exec) guardInfo(heapName string) (*Monitor, string) {
	// heapName = "H:pkg.T.field..." ; find monitor with TypeName T guarding field
	if !strings.HasPrefix(heapName, "H:") {
		return nil, ""
	}
	rest := heapName[2:]
	for _, m := range e.v.db.Monitors {
		pfx := e.v.heapPkgName(m.PkgPath) + "." + m.TypeName + "."
		if strings.HasPrefix(rest, pfx) {
			f := rest[len(pfx):]
			for _, g := range m.Guards {
				if f == g || strings.HasPrefix(f, g+".") || strings.HasPrefix(f, g+"#") {
					return m, g
				}
			}
		}
	}
	return nil, ""
}

func shortPkg(p string) string {
	if i := strings.LastIndex(p, "/"); i >= 0 {
		return p[i+1:]
	}
	return p
}

func (e *Exec) heldFor(s *State, m *Monitor) []heldMutex {
	var out []heldMutex
	for _, h := range s.held {
		if h.Mon == m {
			out = append(out, h)
		}
	}
	return out
}

func (e *Exec) checkGuardWrite(s *State, heapName string, ref *Node) {
	if e.noGuard > 0 || e.quiet > 0 || e.constructing(ref) {
		return
	}
	m, g := e.guardInfo(heapName)
	if m == nil {
		return
	}
	held := e.heldFor(s, m)
	var ok []*Node
	for _, h := range held {
		if !h.Read {
			ok = append(ok, Eq(h.Obj, ref))
		}
	}
	e.addObl(s, e.oblName("guard/"+m.TypeName+"."+g+"/write"), "guard", Or(ok...), 0, "write to guarded field "+m.TypeName+"."+g+" requires holding "+m.MutexField)
}

func (e *Exec) checkGuardRead(s *State, loc Loc) {
	// reads outside the lock are modelled as arbitrary values by havocking at Lock; a read of a
	// guarded field while not holding the lock is logged (the value read is unconstrained because
	// the next Lock havocs it; within straight-line code it is treated as stable – see DESIGN §2.5).
}

// constructing: writes to an object allocated in this function activation (not yet published).
func (e *Exec) constructing(ref *Node) bool {
	// fresh references have the form (+ allocbase k)
	return ref.Op == "+" && len(ref.Args) == 2 && (strings.HasPrefix(ref.Args[0].Op, "alloc0!") || strings.HasPrefix(ref.Args[0].Op, "allocbase!"))
}

// ---------- maps ----------
// M:<maptype>.dom : Array Ref (Array K Bool);  M:<maptype>.val<leaf> : Array Ref (Array K leaf);
// M:<maptype>.len : Array Ref Idx

func (e *Exec) mapHeaps(s *State, mt *types.Map) (dom string, keySort string) {
	keySort = e.mapKeySort(mt)
	if keySort == "" {
		e.unsupported("map with composite key type %s", mt.Key())
	}
	dom = "M:" + typeKey(mt) + ".dom"
	e.heap(s, dom, arraySort(RefSort, arraySort(keySort, "Bool")))
	return
}

func (e *Exec) mapDom(s *State, mt *types.Map, m *Node) *Node {
	dom, ks := e.mapHeaps(s, mt)
	return Select(e.heap(s, dom, arraySort(RefSort, arraySort(ks, "Bool"))), m)
}

func (e *Exec) mapHas(s *State, mt *types.Map, m *Node, k *Node) *Node {
	return And(Not(Eq(m, IntLit(0))), Select(e.mapDom(s, mt, m), k))
}

func (e *Exec) mapGet(s *State, mt *types.Map, m *Node, k *Node) Value {
	_, ks := e.mapHeaps(s, mt)
	has := e.mapHas(s, mt, m, k)
	zero := e.zeroValue(mt.Elem())
	v := e.mode.build(mt.Elem(), func(li leafInfo) *Node {
		name := "M:" + typeKey(mt) + ".val" + li.Path
		h := e.heap(s, name, arraySort(RefSort, arraySort(ks, li.Sort)))
		x := Select(Select(h, m), k)
		if !x.bound {
			e.constrainLeaf(s, x, li.T, li.Sort)
		} else if li.T != nil {
			switch li.T.Underlying().(type) {
			case *types.Pointer, *types.Map, *types.Chan:
				e.assumeMapRefsAllocated(s, h, ks)
			}
		}
		return x
	})
	return zipLeaves(v, zero, func(a, b *Node) *Node { return Ite(has, a, b) })
}

func (e *Exec) mapLen(s *State, mt *types.Map, m *Node) *Node {
	name := "M:" + typeKey(mt) + ".len"
	h := e.heap(s, name, arraySort(RefSort, e.mode.idxSort()))
	l := Select(h, m)
	s.assume(e.ile(e.idx(0), l))
	// physical bound: a map never holds 2^48 entries (recorded as a machine assumption)
	s.assume(e.ile(l, e.idx(1<<48)))
	if !m.bound {
		// a map with a key in its domain is not empty
		_, ks := e.mapHeaps(s, mt)
		k := BoundVar("k!ml", ks)
		s.assume(Forall([]*Node{k}, Implies(Select(e.mapDom(s, mt, m), k), e.ile(e.idx(1), l))))
	}
	return Ite(Eq(m, IntLit(0)), e.idx(0), l)
}

func (e *Exec) makeMap(s *State, x *ssa.MakeMap) Value {
	mt := x.Type().Underlying().(*types.Map)
	r := e.newRef(s)
	dom, ks := e.mapHeaps(s, mt)
	dsort := arraySort(ks, "Bool")
	h := e.heap(s, dom, arraySort(RefSort, dsort))
	e.setHeap(s, dom, Store(h, r, zeroOfSort(dsort)), r)
	ln := "M:" + typeKey(mt) + ".len"
	lh := e.heap(s, ln, arraySort(RefSort, e.mode.idxSort()))
	e.setHeap(s, ln, Store(lh, r, e.idx(0)), r)
	return r
}

func (e *Exec) lookup(s *State, x *ssa.Lookup) Value {
	if mt, ok := x.X.Type().Underlying().(*types.Map); ok {
		m := e.val(s, x.X).(*Node)
		k := e.keyNode(s, e.val(s, x.Index), mt.Key())
		v := e.mapGet(s, mt, m, k)
		e.assumeValInv(s, v, mt.Elem())
		for _, mi := range e.mapInvsFor(x.X) {
			s.assume(Implies(e.mapHas(s, mt, m, k), e.asHyp(func() *Node { return e.evalMapInv(mi, s, k, v, mt) })))
		}
		if x.CommaOk {
			return &TupleV{E: []Value{v, e.mapHas(s, mt, m, k)}}
		}
		return v
	}
	// string index
	str := e.val(s, x.X).(*Node)
	idx := e.toIdx(e.val(s, x.Index).(*Node), x.Index.Type())
	e.bounds(s, And(e.ile(e.idx(0), idx), e.ilt(idx, e.strLen(str))), x.Pos(), "string index out of range")
	if nativeStrings {
		// byte i of a string as the code of its i-th character (exact for ASCII content; the
		// validators under contract only compare against ASCII separators and dots)
		v := App("str.to_code", "Int", App("str.at", "String", str, idx))
		s.assume(e.ar.inRange(v, types.Typ[types.Uint8]))
		return v
	}
	v := Select(e.strChars(str), idx)
	if e.mode == ModeInt {
		s.assume(e.ar.inRange(v, types.Typ[types.Uint8]))
	}
	return v
}

func (e *Exec) mapUpdate(s *State, x *ssa.MapUpdate) {
	mt := x.Map.Type().Underlying().(*types.Map)
	m := e.val(s, x.Map).(*Node)
	k := e.keyNode(s, e.val(s, x.Key), mt.Key())
	if e.safety {
		e.addObl(s, e.oblName("safety/nil-map"), "safety", Not(Eq(m, IntLit(0))), x.Pos(), "assignment to entry in nil map")
	}
	e.assertValInv(s, e.val(s, x.Value), x.Value.Type(), x, "stored into a map")
	if e.quiet == 0 {
		for _, mi := range e.mapInvsFor(x.Map) {
			g := e.evalMapInv(mi, s, k, e.val(s, x.Value), mt)
			e.obls = append(e.obls, &Obligation{Name: e.oblName("mapinv/" + mi.Var), Kind: "mapinv", Pos: x.Pos(), Goal: g, Hyp: s.pc, Func: e.funcKey,
				Text: "stored into " + mi.Var + ": " + mi.Clause.Text, Props: unionProps(orProps(mi.Props, e.props)), Mode: e.mode, exec: e})
		}
	}
	e.mapSet(s, mt, m, k, e.val(s, x.Value))
}

func (e *Exec) mapSet(s *State, mt *types.Map, m, k *Node, val Value) {
	dom, ks := e.mapHeaps(s, mt)
	dsort := arraySort(ks, "Bool")
	h := e.heap(s, dom, arraySort(RefSort, dsort))
	had := Select(Select(h, m), k)
	e.setHeap(s, dom, Store(h, m, Store(Select(h, m), k, tTrue)), m)
	ls := e.mode.leaves(mt.Elem())
	vs := leavesOf(val)
	for i, li := range ls {
		name := "M:" + typeKey(mt) + ".val" + li.Path
		vh := e.heap(s, name, arraySort(RefSort, arraySort(ks, li.Sort)))
		e.setHeap(s, name, Store(vh, m, Store(Select(vh, m), k, vs[i])), m)
	}
	ln := "M:" + typeKey(mt) + ".len"
	lh := e.heap(s, ln, arraySort(RefSort, e.mode.idxSort()))
	s.assume(And(e.ile(e.idx(0), Select(lh, m)), e.ile(Select(lh, m), e.idx(1<<48))))
	e.setHeap(s, ln, Store(lh, m, Ite(had, Select(lh, m), e.iadd(Select(lh, m), e.idx(1)))), m)
}

func (e *Exec) mapDelete(s *State, mt *types.Map, m *Node, key Value) {
	k := e.keyNode(s, key, mt.Key())
	dom, ks := e.mapHeaps(s, mt)
	dsort := arraySort(ks, "Bool")
	h := e.heap(s, dom, arraySort(RefSort, dsort))
	had := And(Not(Eq(m, IntLit(0))), Select(Select(h, m), k))
	// deleting from a nil map is a no-op: guard the store
	e.setHeap(s, dom, Ite(Eq(m, IntLit(0)), h, Store(h, m, Store(Select(h, m), k, tFalse))), m)
	ln := "M:" + typeKey(mt) + ".len"
	lh := e.heap(s, ln, arraySort(RefSort, e.mode.idxSort()))
	e.setHeap(s, ln, Ite(had, Store(lh, m, e.isub(Select(lh, m), e.idx(1))), lh), m)
}

// ---------- range over map / string ----------

type RangeIter struct {
	X     Value
	T     types.Type
	Visit *Node // ghost: visited keys (Array K Bool) for maps
}

func (e *Exec) rangeInit(s *State, x *ssa.Range) Value {
	it := &RangeIter{X: e.val(s, x.X), T: x.X.Type()}
	if mt, ok := x.X.Type().Underlying().(*types.Map); ok {
		ks := e.mapKeySort(mt)
		key := fmt.Sprintf("$visited:%p", x)
		s.ghost[key] = zeroOfSort(arraySort(ks, "Bool"))
		it.Visit = nil
		e.rangeKeys[x] = key
	}
	return it
}

func (e *Exec) rangeNext(s *State, x *ssa.Next) Value {
	rng := x.Iter.(*ssa.Range)
	it := e.val(s, x.Iter).(*RangeIter)
	ok := TS.Fresh("rangeok", "Bool")
	if mt, isMap := it.T.Underlying().(*types.Map); isMap {
		m := it.X.(*Node)
		var k *Node
		if e.mode.leafSort(mt.Key()) != "" {
			k = e.freshValue(s, "rangekey", mt.Key()).(*Node)
		} else {
			k = TS.Fresh("rangekey", e.mapKeySort(mt))
			e.assumeKeyAxioms(s, mt.Key())
			e.constrainShape(s, e.keyValue(s, k, mt.Key()))
		}
		gk := e.rangeKeys[rng]
		visited := s.ghost[gk].(*Node)
		// ok ⇒ key is in the map and not yet visited; !ok ⇒ every key of the map was visited
		s.assume(Implies(ok, And(e.mapHas(s, mt, m, k), Not(Select(visited, k)))))
		ks := e.mapKeySort(mt)
		q := BoundVar("k!r", ks)
		s.assume(Implies(Not(ok), Forall([]*Node{q}, Implies(e.mapHas(s, mt, m, q), Select(visited, q)))))
		s.ghost[gk] = Ite(ok, Store(visited, k, tTrue), visited)
		if e.written != nil {
			e.written["ghostvar:"+gk] = true
		}
		v := e.mapGet(s, mt, m, k)
		e.assumeValInv(s, v, mt.Elem())
		for _, mi := range e.mapInvsFor(rng.X) {
			s.assume(Implies(ok, e.asHyp(func() *Node { return e.evalMapInv(mi, s, k, v, mt) })))
		}
		return &TupleV{E: []Value{ok, e.keyValue(s, k, mt.Key()), v}}
	}
	// string iteration: rune decoding not modelled
	e.logAbs("range over string: index/rune unconstrained")
	i := e.freshValue(s, "rangeidx", types.Typ[types.Int])
	r := e.freshValue(s, "rangerune", types.Typ[types.Int32])
	return &TupleV{E: []Value{ok, i, r}}
}

// Struct-typed map keys. Inside the executor a key is an ordinary struct value; at every map
// operation it is packed into one term of an uninterpreted sort K_T by a constructor mk_K_T whose
// projections make it a bijection (two quantified axioms, assumed where such a map is used).
func packedSortName(m Mode, kt types.Type) string {
	return "K_" + sanitize(typeKey(kt)) + fmt.Sprintf("_%d", int(m))
}

func (e *Exec) mapKeySort(mt *types.Map) string {
	if ks := e.mode.leafSort(mt.Key()); ks != "" {
		return ks
	}
	if _, ok := mt.Key().Underlying().(*types.Struct); ok {
		sn := packedSortName(e.mode, mt.Key())
		TS.DeclSort(sn)
		return sn
	}
	return ""
}

func (e *Exec) keyNode(s *State, v Value, kt types.Type) *Node {
	switch x := v.(type) {
	case *Node:
		return x
	case *StructV:
		e.assumeKeyAxioms(s, kt)
		return e.packKey(x, kt)
	}
	e.unsupported("map key of unsupported shape %T", v)
	return nil
}

// keyValue: the struct value of a packed key (projections), or the key itself for scalar keys.
func (e *Exec) keyValue(s *State, k *Node, kt types.Type) Value {
	if e.mode.leafSort(kt) != "" {
		return k
	}
	sn := packedSortName(e.mode, kt)
	i := 0
	return e.mode.build(kt, func(li leafInfo) *Node {
		pf := fmt.Sprintf("proj%d_%s", i, sn)
		TS.DeclFun(pf, []string{sn}, li.Sort)
		i++
		return App(pf, li.Sort, k)
	})
}

func (e *Exec) assumeKeyAxioms(s *State, kt types.Type) {
	sn := packedSortName(e.mode, kt)
	TS.DeclSort(sn)
	ls := e.mode.leaves(kt)
	var sorts []string
	var bvs []*Node
	for i, li := range ls {
		sorts = append(sorts, li.Sort)
		bvs = append(bvs, BoundVar(fmt.Sprintf("kf%d!k", i), li.Sort))
	}
	fn := "mk_" + sn
	TS.DeclFun(fn, sorts, sn)
	packed := App(fn, sn, bvs...)
	var eqs []*Node
	var projs []*Node
	kq := BoundVar("kq!k", sn)
	for i, li := range ls {
		pf := fmt.Sprintf("proj%d_%s", i, sn)
		TS.DeclFun(pf, []string{sn}, li.Sort)
		eqs = append(eqs, Eq(App(pf, li.Sort, packed), bvs[i]))
		projs = append(projs, App(pf, li.Sort, kq))
	}
	s.assume(Forall(bvs, And(eqs...)))
	s.assume(Forall([]*Node{kq}, Eq(App(fn, sn, projs...), kq)))
}

// packKey: composite (struct) map keys are packed into one term of an uninterpreted tuple sort via
// an injective constructor (declared per key type).
func (e *Exec) packKey(sv *StructV, kt types.Type) *Node {
	ls := leavesOf(sv)
	var sorts []string
	for _, l := range ls {
		sorts = append(sorts, l.Sort)
	}
	sortName := "K_" + sanitize(typeKey(kt)) + fmt.Sprintf("_%d", int(e.mode))
	TS.DeclSort(sortName)
	fn := "mk_" + sortName
	TS.DeclFun(fn, sorts, sortName)
	k := App(fn, sortName, ls...)
	// projections make the constructor injective
	for i, l := range ls {
		pf := fmt.Sprintf("proj%d_%s", i, sortName)
		TS.DeclFun(pf, []string{sortName}, l.Sort)
		if !k.bound {
			e.keyFacts = append(e.keyFacts, Eq(App(pf, l.Sort, k), l))
		}
	}
	return k
}

// assumeMapRefsAllocated: a map-value heap read under a quantifier. Every reference held in a map is
// an allocated object (or nil); stated for the root constants of the heap term (values stored by
// this activation carry the fact individually), with the current allocation bound (monotone).
func (e *Exec) assumeMapRefsAllocated(s *State, h *Node, keySort string) {
	seen := map[int]bool{}
	var roots []*Node
	var rec func(n *Node)
	rec = func(n *Node) {
		if seen[n.id] {
			return
		}
		seen[n.id] = true
		switch {
		case n.Op == "store" && len(n.Args) == 3:
			rec(n.Args[0])
		case n.Op == "ite" && len(n.Args) == 3:
			rec(n.Args[1])
			rec(n.Args[2])
		case len(n.Args) == 0:
			roots = append(roots, n)
		}
	}
	rec(h)
	for _, r := range roots {
		m := BoundVar("m!wf", RefSort)
		k := BoundVar("k!wf", keySort)
		x := Select(Select(r, m), k)
		s.assume(Forall([]*Node{m, k}, And(App("<=", "Bool", IntLit(0), x), App("<", "Bool", x, e.allocTerm(s)))))
	}
}
